//! C31 — expressions parse according to the documented precedence table.
//!
//! Universe: every well-typed expression tree up to depth 3 over the fifteen binary operators of
//! the table in book/src/language_reference/operators.md and the prefix operators `-` and `not`,
//! leaves variable / literal / negative literal (= unary minus applied to a literal, as the
//! property statement demands). A tree is printed with minimal parentheses according to the
//! documented table (levels: and or 1; == != 2; `..` 3; < <= > >= 5; + - and unary minus 6; * / 7;
//! % 8; ^ 9; not 10; binary operators left associative; a prefix operator's operand extends over
//! every operator that binds tighter than the prefix operator, wherever the prefix operator stands: also
//! `a * -b / c` is `a * (-(b / c))`, because the only other reading, `(a * -b) / c`, would make this one
//! minus bind tighter than `/`, against the table). The printed text is parsed back
//! by a reference parser for the documented table (must give the tree: machinery check), the
//! tree is evaluated by a reference evaluator, and the real pipeline must print the same value
//! or stop with the same documented runtime error.

use crate::batch::{Case, CaseResult, run_cases};
use crate::drive::{COpts, Emit, End, Input, ROpts};
use crate::fw::{Prop, Tier, UnitOut, hkey};
use serde_json::json;
use std::sync::OnceLock;

pub struct C31;

#[derive(Clone, Copy, PartialEq, Eq, Debug, Hash)]
pub enum Ty {
    Int,
    Bool,
    Str,
}

#[derive(Clone, Copy, PartialEq, Eq, Debug, Hash)]
pub enum Op {
    And,
    Or,
    Eq,
    Ne,
    Cat,
    Lt,
    Le,
    Gt,
    Ge,
    Add,
    Sub,
    Mul,
    Div,
    Mod,
    Pow,
}
const OPS: [Op; 15] = [Op::And, Op::Or, Op::Eq, Op::Ne, Op::Cat, Op::Lt, Op::Le, Op::Gt, Op::Ge, Op::Add, Op::Sub, Op::Mul, Op::Div, Op::Mod, Op::Pow];

impl Op {
    fn src(self) -> &'static str {
        match self {
            Op::And => "and",
            Op::Or => "or",
            Op::Eq => "==",
            Op::Ne => "!=",
            Op::Cat => "..",
            Op::Lt => "<",
            Op::Le => "<=",
            Op::Gt => ">",
            Op::Ge => ">=",
            Op::Add => "+",
            Op::Sub => "-",
            Op::Mul => "*",
            Op::Div => "/",
            Op::Mod => "%",
            Op::Pow => "^",
        }
    }
    /// level in the documented table
    fn doc_level(self) -> u8 {
        match self {
            Op::And | Op::Or => 1,
            Op::Eq | Op::Ne => 2,
            Op::Cat => 3,
            Op::Lt | Op::Le | Op::Gt | Op::Ge => 5,
            Op::Add | Op::Sub => 6,
            Op::Mul | Op::Div => 7,
            Op::Mod => 8,
            Op::Pow => 9,
        }
    }
    fn idx(self) -> usize {
        OPS.iter().position(|o| *o == self).unwrap()
    }
}
const DOC_NEG: u8 = 6;
const DOC_NOT: u8 = 10;

#[derive(Clone, Debug, PartialEq, Eq, Hash)]
pub enum E {
    /// leaf: type, literal?, position (left-to-right index among the leaves of the whole tree)
    Leaf(Ty, bool, usize),
    Neg(Box<E>),
    Not(Box<E>),
    Bin(Op, Box<E>, Box<E>),
}

const INT_VALS: [[i64; 4]; 2] = [[7, 2, 3, 5], [3, 5, 2, 7]];
const BOOL_VALS: [[bool; 4]; 2] = [[true, false, false, true], [false, true, true, false]];
const STR_VALS: [&str; 4] = ["a", "b", "c", "d"];

#[derive(Clone, Debug, PartialEq)]
pub enum Value {
    I(i64),
    B(bool),
    S(String),
}
impl Value {
    fn render(&self) -> String {
        match self {
            Value::I(i) => i.to_string(),
            Value::B(b) => b.to_string(),
            Value::S(s) => s.clone(),
        }
    }
}

#[derive(Clone, Debug, PartialEq)]
pub enum Out {
    Val(Value),
    Err(&'static str),
    /// the manual does not determine the result (negative exponent)
    Unspec,
    /// the tree is not well typed (only for alternative readings)
    IllTyped,
}

// ------------------------------------------------------------------ typing

fn bin_type(op: Op, l: Ty, r: Ty, strict: bool) -> Option<Ty> {
    match op {
        Op::And | Op::Or => (l == Ty::Bool && r == Ty::Bool).then_some(Ty::Bool),
        Op::Eq | Op::Ne => (l == r).then_some(Ty::Bool),
        Op::Cat => Some(Ty::Str),
        Op::Lt | Op::Le | Op::Gt => (l == r && (l == Ty::Int || l == Ty::Bool)).then_some(Ty::Bool),
        // `>=` on bool operands is kept out of the generated universe (defective for an unrelated
        // reason, see C24); alternative readings may still produce it
        Op::Ge => (l == r && (l == Ty::Int || (!strict && l == Ty::Bool))).then_some(Ty::Bool),
        _ => (l == Ty::Int && r == Ty::Int).then_some(Ty::Int),
    }
}

fn type_of(e: &E, strict: bool) -> Option<Ty> {
    match e {
        E::Leaf(t, _, _) => Some(*t),
        E::Neg(x) => (type_of(x, strict)? == Ty::Int).then_some(Ty::Int),
        E::Not(x) => (type_of(x, strict)? == Ty::Bool).then_some(Ty::Bool),
        E::Bin(op, l, r) => bin_type(*op, type_of(l, strict)?, type_of(r, strict)?, strict),
    }
}

// ------------------------------------------------------------------ enumeration

/// which leaf forms exist besides the variable
#[derive(Clone, Copy, PartialEq, Debug)]
struct LeafForms {
    int_lit: bool,
    /// the negative literal `-2` (= unary minus applied to a literal) counts as a leaf (depth 1)
    neglit_leaf: bool,
    bool_lit: bool,
    str_lit: bool,
}
/// int: variable, literal, negative literal; bool, string: variable, literal
const FULL: LeafForms = LeafForms { int_lit: true, neglit_leaf: true, bool_lit: true, str_lit: true };
/// int: variable, literal (a negated literal is an ordinary prefix node of depth 2); bool, string: variable
const REDUCED: LeafForms = LeafForms { int_lit: true, neglit_leaf: false, bool_lit: false, str_lit: false };
/// FULL without bool/string literals (used for counting only)
const FULL_INT: LeafForms = LeafForms { int_lit: true, neglit_leaf: true, bool_lit: false, str_lit: false };

fn leaves(t: Ty, f: LeafForms) -> Vec<E> {
    let var = E::Leaf(t, false, 0);
    let lit = E::Leaf(t, true, 0);
    let mut v = vec![var];
    match t {
        Ty::Int => {
            if f.int_lit {
                v.push(lit.clone());
            }
            if f.neglit_leaf {
                v.push(E::Neg(Box::new(lit)));
            }
        }
        Ty::Bool => {
            if f.bool_lit {
                v.push(lit);
            }
        }
        Ty::Str => {
            if f.str_lit {
                v.push(lit);
            }
        }
    }
    v
}

const TYS: [Ty; 3] = [Ty::Int, Ty::Bool, Ty::Str];

/// all trees of depth <= d, by type (leaf positions not yet numbered)
fn gen_trees(d: usize, f: LeafForms) -> [Vec<E>; 3] {
    let mut cur: [Vec<E>; 3] = [leaves(Ty::Int, f), leaves(Ty::Bool, f), leaves(Ty::Str, f)];
    for _ in 1..d {
        let mut next: [Vec<E>; 3] = [leaves(Ty::Int, f), leaves(Ty::Bool, f), leaves(Ty::Str, f)];
        // prefix operators (a negated plain literal is the leaf form "negative literal")
        for x in &cur[0] {
            if !(f.neglit_leaf && matches!(x, E::Leaf(_, true, _))) {
                next[0].push(E::Neg(Box::new(x.clone())));
            }
        }
        for x in &cur[1] {
            next[1].push(E::Not(Box::new(x.clone())));
        }
        for op in OPS {
            for (li, lt) in TYS.iter().enumerate() {
                for (ri, rt) in TYS.iter().enumerate() {
                    let Some(res) = bin_type(op, *lt, *rt, true) else { continue };
                    let ti = TYS.iter().position(|t| *t == res).unwrap();
                    for l in &cur[li] {
                        for r in &cur[ri] {
                            next[ti].push(E::Bin(op, Box::new(l.clone()), Box::new(r.clone())));
                        }
                    }
                }
            }
        }
        cur = next;
    }
    cur
}

/// closed-form counts (int, bool, string) of `gen_trees`
fn count_trees(d: usize, f: LeafForms) -> [u64; 3] {
    let l: [u64; 3] = [1 + f.int_lit as u64 + f.neglit_leaf as u64, 1 + f.bool_lit as u64, 1 + f.str_lit as u64];
    // plain literals are not negated again when the negative literal is itself a leaf form
    let plain_lits: u64 = if f.neglit_leaf { f.int_lit as u64 } else { 0 };
    let mut c = l;
    for _ in 1..d {
        let (i, b, s) = (c[0], c[1], c[2]);
        let all = i + b + s;
        c = [
            l[0] + (i - plain_lits) + 6 * i * i,
            l[1] + b + 2 * b * b + 2 * (i * i + b * b + s * s) + 3 * (i * i + b * b) + i * i,
            l[2] + all * all,
        ];
    }
    c
}

fn number(e: &mut E, n: &mut usize) {
    match e {
        E::Leaf(_, _, p) => {
            *p = *n;
            *n += 1;
        }
        E::Neg(x) | E::Not(x) => number(x, n),
        E::Bin(_, l, r) => {
            number(l, n);
            number(r, n);
        }
    }
}

/// does the tree use a bool or string literal leaf?
fn uses_bool_or_str_literal(e: &E) -> bool {
    match e {
        E::Leaf(Ty::Int, _, _) => false,
        E::Leaf(_, lit, _) => *lit,
        E::Neg(x) | E::Not(x) => uses_bool_or_str_literal(x),
        E::Bin(_, l, r) => uses_bool_or_str_literal(l) || uses_bool_or_str_literal(r),
    }
}

/// depth of a tree; a negated literal counts as a leaf when `neglit_leaf`
fn depth(e: &E, neglit_leaf: bool) -> usize {
    match e {
        E::Leaf(..) => 1,
        E::Neg(x) if neglit_leaf && matches!(&**x, E::Leaf(_, true, _)) => 1,
        E::Neg(x) | E::Not(x) => 1 + depth(x, neglit_leaf),
        E::Bin(_, l, r) => 1 + depth(l, neglit_leaf).max(depth(r, neglit_leaf)),
    }
}

const ARITH: [Op; 6] = [Op::Add, Op::Sub, Op::Mul, Op::Div, Op::Mod, Op::Pow];

/// "unary minus anywhere" family over int arithmetic: (-)? (A op B) with
/// A, B in { l, -l, l op l, -(l op l) }, l in `atoms`; only the trees deeper than 3 (the others are in the main family)
fn gen_unary(atoms: &[E], neglit_leaf: bool) -> Vec<E> {
    let mut a: Vec<E> = vec![];
    for l in atoms {
        a.push(l.clone());
        a.push(E::Neg(Box::new(l.clone())));
    }
    for op in ARITH {
        for l in atoms {
            for r in atoms {
                let b = E::Bin(op, Box::new(l.clone()), Box::new(r.clone()));
                a.push(b.clone());
                a.push(E::Neg(Box::new(b)));
            }
        }
    }
    let mut out = vec![];
    for op in ARITH {
        for l in &a {
            for r in &a {
                let b = E::Bin(op, Box::new(l.clone()), Box::new(r.clone()));
                for e in [b.clone(), E::Neg(Box::new(b))] {
                    if depth(&e, neglit_leaf) > 3 {
                        out.push(e);
                    }
                }
            }
        }
    }
    out
}

/// closed form of `gen_unary`: n atoms of depth 1; `neg_atom_leaf` of the negated atoms count as depth 1
fn count_unary(n: u64, neg_atom_leaf: u64) -> u64 {
    let a = 2 * n + 2 * 6 * n * n;
    let deep = 6 * n * n; // -(l op l), depth 3
    let d1 = n + neg_atom_leaf;
    6 * (a * a - (a - deep) * (a - deep)) + 6 * (a * a - d1 * d1)
}

// ------------------------------------------------------------------ printing

#[derive(Clone, Debug, PartialEq)]
pub enum Tok {
    L,
    R,
    Neg,
    Not,
    Op(Op),
    Leaf(Ty, bool, usize),
}

struct Printed {
    s: String,
    toks: Vec<Tok>,
    /// the right edge is the operand of an unparenthesised unary minus (it would swallow a following tighter operator)
    open_neg: bool,
}

fn paren(p: Printed) -> Printed {
    let mut toks = vec![Tok::L];
    toks.extend(p.toks);
    toks.push(Tok::R);
    Printed { s: format!("({})", p.s), toks, open_neg: false }
}

fn leaf_src(t: Ty, lit: bool, pos: usize, set: usize) -> String {
    if !lit {
        return format!("{}{pos}", match t {
            Ty::Int => "xi",
            Ty::Bool => "xb",
            Ty::Str => "xs",
        });
    }
    match t {
        Ty::Int => INT_VALS[set][pos % 4].to_string(),
        Ty::Bool => BOOL_VALS[set][pos % 4].to_string(),
        Ty::Str => format!("\"{}\"", STR_VALS[pos % 4]),
    }
}

/// minimal parentheses for the documented table
fn print(e: &E, set: usize) -> Printed {
    match e {
        E::Leaf(t, lit, pos) => Printed { s: leaf_src(*t, *lit, *pos, set), toks: vec![Tok::Leaf(*t, *lit, *pos)], open_neg: false },
        E::Neg(x) => {
            let mut px = print(x, set);
            if let E::Bin(o, _, _) = &**x {
                if o.doc_level() <= DOC_NEG {
                    px = paren(px);
                }
            }
            let sep = if px.s.starts_with('-') { " " } else { "" };
            let mut toks = vec![Tok::Neg];
            toks.extend(px.toks);
            Printed { s: format!("-{sep}{}", px.s), toks, open_neg: true }
        }
        E::Not(x) => {
            let mut px = print(x, set);
            if matches!(&**x, E::Bin(..)) {
                px = paren(px);
            }
            let mut toks = vec![Tok::Not];
            toks.extend(px.toks);
            Printed { s: format!("not {}", px.s), toks, open_neg: px.open_neg }
        }
        E::Bin(op, l, r) => {
            let p = op.doc_level();
            let mut pl = print(l, set);
            let mut need_l = match &**l {
                E::Bin(o, _, _) => o.doc_level() < p,
                E::Neg(_) => p > DOC_NEG,
                _ => false,
            };
            if !need_l && pl.open_neg && p > DOC_NEG {
                need_l = true;
            }
            if need_l {
                pl = paren(pl);
            }
            let mut pr = print(r, set);
            if let E::Bin(o, _, _) = &**r {
                if o.doc_level() <= p {
                    pr = paren(pr);
                }
            }
            let mut toks = pl.toks;
            toks.push(Tok::Op(*op));
            toks.extend(pr.toks);
            Printed { s: format!("{} {} {}", pl.s, op.src(), pr.s), toks, open_neg: pr.open_neg }
        }
    }
}

// ------------------------------------------------------------------ reference parser

#[derive(Clone, Copy)]
pub struct Table {
    level: [u8; 15],
    neg: u8,
    not: u8,
    right_assoc: bool,
    /// `-` directly followed by an int literal is one atomic term
    neg_lit_atomic: bool,
    /// (alternative reading, contradicts the table) a prefix operator met as right operand of a tighter
    /// operator keeps that operator's level: `a * -b / c` = `(a * -b) / c`
    prefix_keeps_context: bool,
}

pub fn documented() -> Table {
    let mut level = [0u8; 15];
    for op in OPS {
        level[op.idx()] = op.doc_level();
    }
    Table { level, neg: DOC_NEG, not: DOC_NOT, right_assoc: false, neg_lit_atomic: false, prefix_keeps_context: false }
}

struct Parser<'a> {
    t: &'a [Tok],
    i: usize,
    tb: Table,
}
impl Parser<'_> {
    fn bp(&mut self, min: u8) -> Option<E> {
        let tok = self.t.get(self.i)?.clone();
        self.i += 1;
        let mut lhs = match tok {
            Tok::Neg => {
                if self.tb.neg_lit_atomic && matches!(self.t.get(self.i), Some(Tok::Leaf(Ty::Int, true, _))) {
                    let Some(Tok::Leaf(t, l, p)) = self.t.get(self.i).cloned() else { unreachable!() };
                    self.i += 1;
                    E::Neg(Box::new(E::Leaf(t, l, p)))
                } else {
                    let lvl = if self.tb.prefix_keeps_context { self.tb.neg.max(min) } else { self.tb.neg };
                    E::Neg(Box::new(self.bp(lvl)?))
                }
            }
            Tok::Not => {
                let lvl = if self.tb.prefix_keeps_context { self.tb.not.max(min) } else { self.tb.not };
                E::Not(Box::new(self.bp(lvl)?))
            }
            Tok::L => {
                let e = self.bp(0)?;
                if self.t.get(self.i) != Some(&Tok::R) {
                    return None;
                }
                self.i += 1;
                e
            }
            Tok::Leaf(t, l, p) => E::Leaf(t, l, p),
            _ => return None,
        };
        while let Some(Tok::Op(op)) = self.t.get(self.i) {
            let op = *op;
            let p = self.tb.level[op.idx()];
            if if self.tb.right_assoc { p < min } else { p <= min } {
                break;
            }
            self.i += 1;
            // same call for both associativities: the break test above decides whether an operator of level p nests to the right
            let rhs = self.bp(p)?;
            lhs = E::Bin(op, Box::new(lhs), Box::new(rhs));
        }
        Some(lhs)
    }
}

pub fn parse(toks: &[Tok], tb: Table) -> Option<E> {
    let mut p = Parser { t: toks, i: 0, tb };
    let e = p.bp(0)?;
    (p.i == toks.len()).then_some(e)
}

/// `-` in prefix position, an int literal, then a binary operator tighter than unary minus
fn has_neg_literal_pattern(toks: &[Tok]) -> bool {
    toks.windows(3).any(|w| matches!(w, [Tok::Neg, Tok::Leaf(Ty::Int, true, _), Tok::Op(o)] if o.doc_level() > DOC_NEG))
}

// ------------------------------------------------------------------ reference evaluator

/// `false_lt_true`: which of the two possible total orders on bool is used
pub fn eval(e: &E, set: usize, false_lt_true: bool) -> Out {
    use super::c15::{Exp, model};
    let arith = |op: &str, a: i64, b: i64| match model(op, a, b) {
        Exp::Val(v) => Out::Val(Value::I(v)),
        Exp::Err(k) => Out::Err(k),
        Exp::Unspecified => Out::Unspec,
    };
    match e {
        E::Leaf(Ty::Int, _, p) => Out::Val(Value::I(INT_VALS[set][*p % 4])),
        E::Leaf(Ty::Bool, _, p) => Out::Val(Value::B(BOOL_VALS[set][*p % 4])),
        E::Leaf(Ty::Str, _, p) => Out::Val(Value::S(STR_VALS[*p % 4].to_string())),
        E::Neg(x) => match eval(x, set, false_lt_true) {
            Out::Val(Value::I(v)) => arith("-", 0, v),
            Out::Val(_) => Out::IllTyped,
            o => o,
        },
        E::Not(x) => match eval(x, set, false_lt_true) {
            Out::Val(Value::B(v)) => Out::Val(Value::B(!v)),
            Out::Val(_) => Out::IllTyped,
            o => o,
        },
        E::Bin(op, l, r) => {
            let a = match eval(l, set, false_lt_true) {
                Out::Val(v) => v,
                o => return o,
            };
            // short circuit
            if let (Op::And, Value::B(false)) = (op, &a) {
                return Out::Val(Value::B(false));
            }
            if let (Op::Or, Value::B(true)) = (op, &a) {
                return Out::Val(Value::B(true));
            }
            let b = match eval(r, set, false_lt_true) {
                Out::Val(v) => v,
                o => return o,
            };
            let cmp_bool = |x: bool, y: bool| if false_lt_true { (x as u8).cmp(&(y as u8)) } else { (y as u8).cmp(&(x as u8)) };
            match (op, &a, &b) {
                (Op::And, Value::B(_), Value::B(y)) | (Op::Or, Value::B(_), Value::B(y)) => Out::Val(Value::B(*y)),
                (Op::Eq, _, _) => Out::Val(Value::B(a == b)),
                (Op::Ne, _, _) => Out::Val(Value::B(a != b)),
                (Op::Cat, _, _) => Out::Val(Value::S(format!("{}{}", a.render(), b.render()))),
                (Op::Lt | Op::Le | Op::Gt | Op::Ge, _, _) => {
                    let o = match (&a, &b) {
                        (Value::I(x), Value::I(y)) => x.cmp(y),
                        (Value::B(x), Value::B(y)) => cmp_bool(*x, *y),
                        _ => return Out::IllTyped,
                    };
                    Out::Val(Value::B(match op {
                        Op::Lt => o.is_lt(),
                        Op::Le => o.is_le(),
                        Op::Gt => o.is_gt(),
                        _ => o.is_ge(),
                    }))
                }
                (_, Value::I(x), Value::I(y)) => arith(op.src(), *x, *y),
                _ => Out::IllTyped,
            }
        }
    }
}

fn eval_typed(e: &E, set: usize, flt: bool) -> Out {
    if type_of(e, false).is_none() { Out::IllTyped } else { eval(e, set, flt) }
}

// ------------------------------------------------------------------ universe

#[derive(Clone)]
struct Item {
    e: E,
    set: usize,
}

struct Universe {
    main: Vec<Item>,
    /// stratum "negative literal directly followed by an operator that binds tighter than unary minus"
    neglit: Vec<Item>,
}

const CHUNK: usize = 1500;

fn build(tier: Tier) -> Universe {
    let mut all: Vec<E> = vec![];
    let var = E::Leaf(Ty::Int, false, 0);
    let lit = E::Leaf(Ty::Int, true, 0);
    match tier {
        Tier::Quick => {
            for v in gen_trees(3, REDUCED) {
                all.extend(v);
            }
            for v in gen_trees(2, FULL) {
                all.extend(v.into_iter().filter(uses_bool_or_str_literal));
            }
            all.extend(gen_unary(&[var], false));
            all.extend(gen_unary(&[lit], false));
        }
        Tier::Thorough => {
            for v in gen_trees(3, FULL) {
                all.extend(v);
            }
            all.extend(gen_unary(&[var, lit], true));
        }
    }
    let sets: &[usize] = tier.pick(&[0][..], &[0, 1][..]);
    let mut u = Universe { main: vec![], neglit: vec![] };
    for mut e in all {
        let mut n = 0;
        number(&mut e, &mut n);
        let p = print(&e, 0);
        let stratum_n = has_neg_literal_pattern(&p.toks);
        for set in sets {
            let it = Item { e: e.clone(), set: *set };
            if stratum_n { u.neglit.push(it) } else { u.main.push(it) }
        }
    }
    u
}

fn universe(tier: Tier) -> &'static Universe {
    static Q: OnceLock<Universe> = OnceLock::new();
    static T: OnceLock<Universe> = OnceLock::new();
    match tier {
        Tier::Quick => Q.get_or_init(|| build(Tier::Quick)),
        Tier::Thorough => T.get_or_init(|| build(Tier::Thorough)),
    }
}

fn total_count(tier: Tier) -> u64 {
    match tier {
        Tier::Quick => {
            let a: u64 = count_trees(3, REDUCED).iter().sum();
            let b: u64 = count_trees(2, FULL).iter().sum::<u64>() - count_trees(2, FULL_INT).iter().sum::<u64>();
            a + b + 2 * count_unary(1, 0)
        }
        Tier::Thorough => 2 * (count_trees(3, FULL).iter().sum::<u64>() + count_unary(2, 1)),
    }
}

fn collect_vars(e: &E, set: usize, lines: &mut Vec<String>, inputs: &mut Vec<Input>) {
    match e {
        E::Leaf(t, false, p) => {
            let name = leaf_src(*t, false, *p, set);
            match t {
                Ty::Int => {
                    lines.push(format!("let {name} = vh_next_int()"));
                    inputs.push(Input::Int(INT_VALS[set][*p % 4]));
                }
                Ty::Bool => {
                    lines.push(format!("let {name} = vh_next_int() == 1"));
                    inputs.push(Input::Int(BOOL_VALS[set][*p % 4] as i64));
                }
                Ty::Str => {
                    lines.push(format!("let {name} = vh_next_str()"));
                    inputs.push(Input::Str(STR_VALS[*p % 4].to_string()));
                }
            }
        }
        E::Leaf(..) => {}
        E::Neg(x) | E::Not(x) => collect_vars(x, set, lines, inputs),
        E::Bin(_, l, r) => {
            collect_vars(l, set, lines, inputs);
            collect_vars(r, set, lines, inputs);
        }
    }
}

fn var_legend(e: &E, set: usize, out: &mut Vec<String>) {
    match e {
        E::Leaf(t, false, p) => out.push(format!(
            "{}={}",
            leaf_src(*t, false, *p, set),
            match t {
                Ty::Int => INT_VALS[set][*p % 4].to_string(),
                Ty::Bool => BOOL_VALS[set][*p % 4].to_string(),
                Ty::Str => format!("{:?}", STR_VALS[*p % 4]),
            }
        )),
        E::Leaf(..) => {}
        E::Neg(x) | E::Not(x) => var_legend(x, set, out),
        E::Bin(_, l, r) => {
            var_legend(l, set, out);
            var_legend(r, set, out);
        }
    }
}

fn n_ops(e: &E) -> usize {
    match e {
        E::Leaf(..) => 0,
        E::Neg(x) | E::Not(x) => 1 + n_ops(x),
        E::Bin(_, l, r) => 1 + n_ops(l) + n_ops(r),
    }
}

/// fully parenthesised rendering (for reports)
fn full_paren(e: &E, set: usize) -> String {
    match e {
        E::Leaf(t, l, p) => leaf_src(*t, *l, *p, set),
        E::Neg(x) => format!("(-{})", full_paren(x, set)),
        E::Not(x) => format!("(not {})", full_paren(x, set)),
        E::Bin(op, l, r) => format!("({} {} {})", full_paren(l, set), op.src(), full_paren(r, set)),
    }
}

struct Alt {
    name: &'static str,
    tb: Table,
}
fn alternatives() -> Vec<Alt> {
    let d = documented();
    let mut flat = d;
    flat.level = [1; 15];
    let mut right = d;
    right.right_assoc = true;
    let mut negtight = d;
    negtight.neg = 10;
    let mut andor = d;
    // conventional: `and` binds tighter than `or` (levels doubled to make room)
    for l in andor.level.iter_mut() {
        *l *= 2;
    }
    andor.neg *= 2;
    andor.not *= 2;
    andor.level[Op::And.idx()] = 3;
    let mut catlow = d;
    // `..` below `==` (swap of levels 2 and 3)
    catlow.level[Op::Cat.idx()] = 2;
    catlow.level[Op::Eq.idx()] = 3;
    catlow.level[Op::Ne.idx()] = 3;
    let mut modmul = d;
    // `%` at the level of `*` and `/` (as in C)
    modmul.level[Op::Mod.idx()] = 7;
    let mut keepctx = d;
    keepctx.prefix_keeps_context = true;
    vec![
        Alt { name: "prefix minus keeps the level of the tighter operator on its left", tb: keepctx },
        Alt { name: "all binary operators on one level", tb: flat },
        Alt { name: "right associative", tb: right },
        Alt { name: "unary minus binds tightest", tb: negtight },
        Alt { name: "and tighter than or", tb: andor },
        Alt { name: ".. looser than == !=", tb: catlow },
        Alt { name: "% on the level of * /", tb: modmul },
    ]
}

fn emit_fn(t: Ty) -> &'static str {
    match t {
        Ty::Int => "vh_emit_int",
        Ty::Bool => "vh_emit_bool",
        Ty::Str => "vh_emit_str",
    }
}

fn out_text(o: &Out) -> String {
    match o {
        Out::Val(Value::I(i)) => format!("int {i}"),
        Out::Val(Value::B(b)) => format!("bool {b}"),
        Out::Val(Value::S(s)) => format!("string {s:?}"),
        Out::Err(k) => format!("runtime error {k}"),
        Out::Unspec => "unspecified".into(),
        Out::IllTyped => "ill-typed".into(),
    }
}

impl Prop for C31 {
    fn id(&self) -> &'static str {
        "C31"
    }
    fn level(&self) -> &'static str {
        "exploration"
    }
    fn n_units(&self, tier: Tier) -> usize {
        let u = universe(tier);
        u.main.len().div_ceil(CHUNK) + u.neglit.len().div_ceil(CHUNK)
    }
    fn expected_evaluations(&self, tier: Tier) -> Option<u64> {
        Some(total_count(tier))
    }
    fn run_unit(&self, tier: Tier, unit: usize, out: &mut UnitOut) {
        let u = universe(tier);
        let n_main = u.main.len().div_ceil(CHUNK);
        let (items, stratum_n, chunk) = if unit < n_main { (&u.main, false, unit) } else { (&u.neglit, true, unit - n_main) };
        let lo = chunk * CHUNK;
        let hi = (lo + CHUNK).min(items.len());
        let items = &items[lo..hi];
        let doc = documented();
        let mut keep_ctx = doc;
        keep_ctx.prefix_keeps_context = true;
        let mut atomic = doc;
        atomic.neg_lit_atomic = true;
        let mut atomic_keep_ctx = atomic;
        atomic_keep_ctx.prefix_keeps_context = true;
        let alts = alternatives();

        let mut cases = vec![];
        // per case: accepted outcomes (empty = unspecified), class when unspecified, root-cause candidate,
        // "a prefix minus on a non-literal stands in the context of a tighter operator and is followed by one"
        let mut expect: Vec<(Vec<Out>, &'static str, Out, bool)> = vec![];
        for it in items {
            let p = print(&it.e, it.set);
            let back = parse(&p.toks, doc);
            assert_eq!(back.as_ref(), Some(&it.e), "printer/parser round trip failed for {}", p.s);
            assert_eq!(has_neg_literal_pattern(&p.toks), stratum_n);
            let ty = type_of(&it.e, true).expect("generated tree is well typed");
            let mut lines = vec![];
            let mut inputs = vec![];
            collect_vars(&it.e, it.set, &mut lines, &mut inputs);
            lines.push(format!("{}({})", emit_fn(ty), p.s));
            let mut legend = vec![];
            var_legend(&it.e, it.set, &mut legend);
            let name = format!("expr {}{}{}", p.s, if legend.is_empty() { "".to_string() } else { format!(" where {}", legend.join(", ")) }, if stratum_n { " [negative-literal stratum]" } else { "" });
            let mut c = Case::new(name, lines.join("\n"));
            c.inputs = inputs;
            cases.push(c);

            let o1 = eval(&it.e, it.set, true);
            let o2 = eval(&it.e, it.set, false);
            // Some prefix minus is the right operand of an operator tighter than level 6 and its operand is followed by
            // another operator tighter than level 6 (`a * -b / c`). The table decides these: the operand of the minus
            // extends over `/` exactly as in `-b / c` at the start of an expression. The one exception is kept as it was:
            // in the negative-literal stratum, when every such minus stands directly before a numeric literal
            // (`a * -2 / c`; the two readings with the literal as one token agree), the case stays Unspecified.
            let ctx_sensitive = parse(&p.toks, keep_ctx).as_ref() != Some(&it.e);
            let ctx_sensitive_nonliteral = ctx_sensitive && (!stratum_n || parse(&p.toks, atomic) != parse(&p.toks, atomic_keep_ctx));
            let acc: (Vec<Out>, &'static str) = if ctx_sensitive && !ctx_sensitive_nonliteral {
                (vec![], "unspecified: negative literal as right operand of a tighter operator, followed by an operator tighter than unary minus")
            } else if o1 == Out::Unspec || o2 == Out::Unspec {
                (vec![], "unspecified: negative exponent")
            } else if o1 == o2 {
                (vec![o1], "")
            } else {
                (vec![o1, o2], "")
            };
            let root = match parse(&p.toks, atomic) {
                Some(t) if t != it.e => eval_typed(&t, it.set, true),
                _ => Out::Unspec,
            };
            let asserted_ctx = ctx_sensitive_nonliteral && !acc.0.is_empty();
            expect.push((acc.0, acc.1, root, asserted_ctx));
        }

        run_cases(out, lo as u64, &cases, 300, COpts::default(), ROpts::default(), |out, k, c, r| {
            let it = &items[k];
            let (accepted, unspec_class, root, asserted_ctx) = &expect[k];
            if *asserted_ctx {
                out.count("asserted: prefix minus on a non-literal as right operand of * / % ^, followed by * / % ^ (table reading)", 1);
            }
            let p = print(&it.e, it.set);
            // evidence: which alternative readings of the same text this case tells apart from the documented one
            if !accepted.is_empty() {
                let mut distinguishes = false;
                for a in &alts {
                    let differs = match parse(&p.toks, a.tb) {
                        None => true,
                        Some(t) => t != it.e && !accepted.contains(&eval_typed(&t, it.set, true)),
                    };
                    if differs {
                        distinguishes = true;
                        out.count(&format!("distinguishes documented table from reading '{}'", a.name), 1);
                    }
                }
                if distinguishes {
                    out.nontrivial_text(&c.name);
                }
            }
            if k % 700 == 0 {
                out.sample(json!({"case": c.name, "body": c.body, "tree": full_paren(&it.e, it.set), "accepted": accepted.iter().map(out_text).collect::<Vec<_>>()}));
            }
            let fail = |out: &mut UnitOut, observed: String, obs: Option<&Out>, extra: Vec<String>| {
                let mut keys = vec![format!("input:{}", hkey(&c.name))];
                if let Some(o) = obs {
                    if o == root && *root != Out::Unspec {
                        keys.push("root:negative-literal-is-one-token".into());
                    }
                }
                keys.extend(extra);
                out.class("violation");
                out.violation(
                    keys,
                    format!("{}: documented grouping {} gives {}, observed {}", c.name, full_paren(&it.e, it.set), accepted.iter().map(out_text).collect::<Vec<_>>().join(" or "), observed),
                    json!({"case": c.name, "program": c.standalone(), "inputs": format!("{:?}", c.inputs), "documented_grouping": full_paren(&it.e, it.set),
                           "expected": accepted.iter().map(out_text).collect::<Vec<_>>(), "observed": observed,
                           "value_if_negative_literal_is_atomic": out_text(root)}),
                );
            };
            match r {
                CaseResult::Diag(d) => fail(out, format!("compile diagnostics: {d}"), Some(&Out::IllTyped), vec![]),
                CaseResult::CompilerPanic(pn) => fail(out, format!("compiler panic at {}: {}", pn.site, pn.msg), None, vec![pn.site_key()]),
                CaseResult::Ran(o) => {
                    let obs = match (&o.end, o.emits.as_slice()) {
                        (End::Done, [Emit::Int(v)]) => Out::Val(Value::I(*v)),
                        (End::Done, [Emit::Bool(v)]) => Out::Val(Value::B(*v)),
                        (End::Done, [Emit::Str(v)]) => Out::Val(Value::S(v.clone())),
                        (End::Error { kind, .. }, []) if kind == "overflow" => Out::Err("overflow"),
                        (End::Error { kind, .. }, []) if kind == "div-zero" => Out::Err("div-zero"),
                        (End::Fault(pn), _) => return fail(out, format!("VM fault at {}: {}", pn.site, pn.msg), None, vec![pn.site_key()]),
                        (e, em) => {
                            if accepted.is_empty() && !e.is_fault() {
                                out.class(unspec_class);
                            } else {
                                fail(out, format!("end={} emits={:?}", crate::batch::short_end(e), em), None, vec![]);
                            }
                            return;
                        }
                    };
                    if accepted.is_empty() {
                        out.class(unspec_class);
                    } else if accepted.contains(&obs) {
                        out.class(&match &obs {
                            Out::Val(Value::I(_)) => format!("int value, {} operators", n_ops(&it.e)),
                            Out::Val(Value::B(_)) => format!("bool value, {} operators", n_ops(&it.e)),
                            Out::Val(Value::S(_)) => format!("string value, {} operators", n_ops(&it.e)),
                            Out::Err(k) => format!("runtime error {k}"),
                            _ => "other".into(),
                        });
                    } else {
                        fail(out, out_text(&obs), Some(&obs), vec![]);
                    }
                }
            }
        });
    }
    fn rule(&self, tier: Tier) -> String {
        let u = universe(tier);
        format!(
            "{}; operators and or == != .. < <= > >= + - * / % ^ and prefix - / not, typed (arithmetic on int; < <= > on int and bool, >= on int only; == != on int, bool, string; .. on anything; and/or/not on bool); \
             the i-th leaf (left to right) has the value {:?} / {:?} / {:?}{}; variables are fed by the host; printed with minimal parentheses for the documented table, \
             round-tripped through a reference parser, evaluated by the reference evaluator (C15 integer model, short-circuit and/or, either total order on bool accepted). \
             {} cases in the main stratum, {} cases in the separate stratum 'negative literal directly followed by * / % ^' (own units). \
             A prefix minus on a non-literal that is the right operand of * / % ^ and is followed by * / % ^ is asserted with the table reading (`a * -b / c` = a * (-(b / c)), like `-b / c` at the start of an expression). \
             Unspecified (not asserted): negative exponents; in the negative-literal stratum, a minus directly before a numeric literal that is the right operand of a tighter operator and is followed by \
             another operator tighter than unary minus (`a * -2 / c`). \
             Non-trivial: the printed text evaluates differently (or is ill-typed) under at least one of the alternative readings listed in the counters",
            match tier {
                Tier::Quick => "all trees of depth <= 3 with leaf forms {int variable, int literal, bool variable, string variable} (so `-2 % x` and `(-2) % x` have depth 3), plus all trees of depth <= 2 \
                                with leaf forms {variable, literal, negative literal} that use a bool/string literal, plus the 'unary minus anywhere' family (-)?(A op B), A, B in {l, -l, l op l, -(l op l)} over int arithmetic \
                                with all leaves variables / all leaves literals (only the trees deeper than 3)",
                Tier::Thorough => "all trees of depth <= 3 with leaf forms {variable, literal, negative literal (int, counted as a leaf)}, plus the 'unary minus anywhere' family (-)?(A op B), A, B in {l, -l, l op l, -(l op l)} \
                                   over int arithmetic with l in {variable, literal} (only the trees deeper than 3), each under two value assignments",
            },
            INT_VALS[0],
            BOOL_VALS[0],
            STR_VALS,
            if tier == Tier::Thorough { format!(" (second assignment {:?} / {:?})", INT_VALS[1], BOOL_VALS[1]) } else { String::new() },
            u.main.len(),
            u.neglit.len()
        )
    }
    fn assumptions(&self) -> Vec<String> {
        vec![
            "the table is read in the usual precedence-climbing way: the operand of a prefix operator extends over every following operator that binds tighter than the prefix operator (so `-x % 3` is -(x % 3) and `-x ^ 2` is -(x ^ 2), `not a == b` is (not a) == b, `a .. b == c` is (a .. b) == c)".into(),
            "this holds wherever the prefix operator stands: in `a * -b / c` the operand of the minus is `b / c` (value a * (-(b / c))); the only other structurally possible reading, (a * -b) / c, would make that minus bind tighter than `/` although the table puts unary minus (6) below `* /` (7), `%` (8) and `^` (9), and would make the grouping of `-b / c` depend on what precedes it; operators.md says nothing to the contrary".into(),
            "`>=` on bool operands is not generated: `true >= true` is wrong for a reason unrelated to parsing (C24)".into(),
            "the order of false and true is not documented: a result is accepted if it matches the documented grouping under either order".into(),
            "`not a == b` and `not (a == b)` have the same value for all booleans, so the relative level of `not` and `==`/`!=` can only be observed through typing".into(),
        ]
    }
}
