use crate::fw::Prop;

pub mod c06;
pub mod c07;
pub mod c09;
pub mod c15;
pub mod c37;
pub mod c38;

pub fn all() -> Vec<Box<dyn Prop>> {
    vec![
        Box::new(c06::C06),
        Box::new(c07::C07),
        Box::new(c09::C09),
        Box::new(c15::C15),
        Box::new(c37::C37),
        Box::new(c38::C38),
    ]
}
