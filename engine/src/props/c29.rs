//! C29 — comments and optional separators never change a program.
//!
//! (a) Generated programs (U-prog standalone corpus; token stream and statement boundaries known by
//!     construction from the generator's structured printer): every single layout change —
//!     a block comment from a menu in EVERY gap between two tokens, a line comment at EVERY line end,
//!     every statement separator flipped between newline and `;`, a blank line at every statement
//!     boundary, every optional line break removed — must leave the observable behaviour unchanged.
//! (b) Repository corpus programs (conservative tokenizer that re-joins to the identical text):
//!     a block comment in every gap between two tokens, a line comment at every line end.
//! Deviation 1 everywhere; pairs of changes on the shortest programs in the thorough tier.

use crate::batch::{Case, CaseResult, run_cases};
use crate::drive::{self, COpts, End, ROpts, StdHost};
use crate::fw::{Prop, Tier, UnitOut, hkey};
use crate::props::text_util as tu;
use crate::ugen::{self, TK, Toks};
use serde_json::json;

pub struct C29;

const BLOCK_COMMENTS: [&str; 12] = ["/**/", "/* c */", "/* a*b */", "/* a/b */", "/* // */", "/* \" */", "/***/", "/** c **/", "/* c ***/", "/* \\ */", "/* c \\*/", "/* ' */"];
const LINE_COMMENTS: [&str; 8] = ["// c", "// */", "// \"", "// c\\", "// a\\b\\", "// \\\\", "// /*", "// '"];

#[derive(Clone, Debug)]
enum Change {
    /// block comment k before token i (i indexes Word tokens by position in the stream)
    Block(usize, usize),
    /// line comment k at the separator / break at stream position i
    Line(usize, usize),
    /// statement separator at stream position i written as `;`
    Semi(usize),
    /// blank line at the statement separator at stream position i
    Blank(usize),
    /// optional line break at stream position i removed (tokens stay on one line)
    Join(usize),
    /// the `{` (Word token i) that opens the body of a fn / while / for / if / match header moved to a later line:
    /// k = 0 next line, 1 after a blank line, 2 after a comment line
    BraceBreak(usize, usize),
}
const BRACE_BREAKS: [&str; 3] = ["\n", "\n\n", "\n// c\n"];

fn render(t: &Toks, ch: &[Change]) -> String {
    let mut s = String::new();
    let mut at_line_start = true;
    for (i, tok) in t.0.iter().enumerate() {
        match tok.kind {
            TK::Word => {
                let mut glue = tok.glue;
                for c in ch {
                    if let Change::BraceBreak(pos, k) = c {
                        if *pos == i {
                            s.push_str(BRACE_BREAKS[*k]);
                            at_line_start = true;
                        }
                    }
                    if let Change::Block(pos, k) = c {
                        if *pos == i {
                            if !at_line_start {
                                s.push(' ');
                            }
                            s.push_str(BLOCK_COMMENTS[*k]);
                            at_line_start = false;
                            glue = false;
                        }
                    }
                }
                if !at_line_start && !glue {
                    s.push(' ');
                }
                s.push_str(&tok.text);
                at_line_start = false;
            }
            TK::Sep | TK::Brk => {
                if at_line_start {
                    continue;
                }
                let here = ch.iter().find(|c| !matches!(c, Change::Block(..) | Change::BraceBreak(..)) && pos_of(c) == i);
                match here {
                    Some(Change::Line(_, k)) => {
                        s.push(' ');
                        s.push_str(LINE_COMMENTS[*k]);
                        s.push('\n');
                        at_line_start = true;
                    }
                    Some(Change::Semi(_)) if tok.kind == TK::Sep => {
                        // statements are separated by `;`, match arms by `,`
                        s.push(if in_match_arms(t, i) { ',' } else { ';' });
                        at_line_start = false;
                    }
                    Some(Change::Blank(_)) => {
                        s.push_str("\n\n");
                        at_line_start = true;
                    }
                    Some(Change::Join(_)) if tok.kind == TK::Brk => {
                        at_line_start = false;
                    }
                    _ => {
                        s.push('\n');
                        at_line_start = true;
                    }
                }
            }
        }
    }
    if s.ends_with('\n') {
        s.pop();
    }
    s
}

/// Is the separator at stream position `i` directly inside the braces of a `match` (i.e. between
/// two arms)? Decided from the token stream: the innermost unclosed `{` before `i` belongs to a
/// match when the words between the previous separator/brace and that `{` contain `match`.
fn in_match_arms(t: &Toks, i: usize) -> bool {
    let mut stack: Vec<bool> = vec![];
    let mut since: Vec<&str> = vec![];
    for tok in &t.0[..i] {
        match tok.kind {
            TK::Word => match tok.text.as_str() {
                "{" => {
                    let is_match = since.contains(&"match") && since.last() != Some(&"->");
                    stack.push(is_match);
                    since.clear();
                }
                "}" => {
                    stack.pop();
                    since.clear();
                }
                w => since.push(w),
            },
            TK::Sep | TK::Brk => since.clear(),
        }
    }
    stack.last().copied().unwrap_or(false)
}

/// all single changes applicable to a token stream
fn changes(t: &Toks) -> Vec<Change> {
    let mut v = vec![];
    let n = t.0.len();
    let mut first_word: Option<&str> = None;
    let mut prev_word: Option<&str> = None;
    for (i, tok) in t.0.iter().enumerate() {
        match tok.kind {
            TK::Word => {
                for k in 0..BLOCK_COMMENTS.len() {
                    v.push(Change::Block(i, k));
                }
                // the body brace of a statement-level header may stand on a later line
                if tok.text == "{" && !tok.glue && matches!(first_word, Some("fn" | "while" | "for" | "if" | "match")) && !matches!(prev_word, Some("=" | "->" | "else")) {
                    for k in 0..BRACE_BREAKS.len() {
                        v.push(Change::BraceBreak(i, k));
                    }
                }
                if first_word.is_none() {
                    first_word = Some(tok.text.as_str());
                }
                prev_word = Some(tok.text.as_str());
            }
            TK::Sep => {
                first_word = None;
                for k in 0..LINE_COMMENTS.len() {
                    v.push(Change::Line(i, k));
                }
                // a `;` in front of a closing brace or at the very end is not a separator position
                let next_word = t.0[i + 1..].iter().find(|x| x.kind == TK::Word).map(|x| x.text.as_str());
                let prev_word = t.0[..i].iter().rev().find(|x| x.kind == TK::Word).map(|x| x.text.as_str());
                if i + 1 < n && next_word.is_some() && next_word != Some("}") && prev_word != Some("{") {
                    v.push(Change::Semi(i));
                }
                v.push(Change::Blank(i));
            }
            TK::Brk => {
                first_word = None;
                for k in 0..LINE_COMMENTS.len() {
                    v.push(Change::Line(i, k));
                }
                v.push(Change::Blank(i));
            }
        }
    }
    v
}

fn obs_sig(r: &CaseResult) -> String {
    match r {
        CaseResult::Ran(o) => {
            let end = match &o.end {
                End::Error { kind, .. } => format!("error:{kind}"),
                End::Fault(p) => format!("fault {}", p.site_key()),
                e => e.class(),
            };
            format!("ran end={end} emits={:?} out={:?}", o.emits, o.out)
        }
        CaseResult::Diag(d) => format!("rejected: {}", tu::diag_class(d)),
        CaseResult::CompilerPanic(p) => format!("compiler panic {}", p.site_key()),
    }
}

const PROGS_PER_UNIT: usize = 6;

impl C29 {
    fn gen_programs(tier: Tier) -> Vec<(String, ugen::Prog)> {
        ugen::standalone_corpus_full(tier)
    }
    fn corpus_files(tier: Tier) -> Vec<usize> {
        // corpus programs that compile and run on their own, shortest first
        let c = tu::corpus();
        let n = tier.pick(12, 60);
        // programs declaring their own host functions are skipped: the harness finds host declarations
        // with a line-based scan (a comment in front of `#host` would change the harness, not the program)
        // tiny/alias-import is rejected as it stands (`Can't solve type`: it exists for the text neighbourhoods of C04 / C34)
        (0..c.len()).filter(|i| c[*i].text.len() >= 20 && !c[*i].text.contains("#host") && c[*i].name != "tiny/alias-import").take(n).collect()
    }
    fn n_gen_units(tier: Tier) -> usize {
        Self::gen_programs(tier).len().div_ceil(PROGS_PER_UNIT)
    }
}

impl Prop for C29 {
    fn id(&self) -> &'static str {
        "C29"
    }
    fn level(&self) -> &'static str {
        "exploration"
    }
    fn n_units(&self, tier: Tier) -> usize {
        Self::n_gen_units(tier) + Self::corpus_files(tier).len()
    }
    fn run_unit(&self, tier: Tier, unit: usize, out: &mut UnitOut) {
        let ngen = Self::n_gen_units(tier);
        if unit < ngen {
            let all = Self::gen_programs(tier);
            let lo = unit * PROGS_PER_UNIT;
            let hi = (lo + PROGS_PER_UNIT).min(all.len());
            let mut base_idx = 0u64;
            for (name, p) in &all[lo..hi] {
                let toks = p.body_toks();
                let base_case = p.case();
                let chs = changes(&toks);
                let mut cases: Vec<Case> = vec![base_case.clone()];
                let mut descr: Vec<String> = vec!["unchanged".into()];
                // sanity: rendering without changes reproduces the printer's text
                if render(&toks, &[]) != toks.text() {
                    out.notes.push(format!("MACHINERY: renderer disagrees with the printer on {name}"));
                    out.count("renderer_mismatch", 1);
                }
                for c in &chs {
                    let body = render(&toks, std::slice::from_ref(c));
                    let mut cs = base_case.clone();
                    cs.name = format!("{name} | {c:?}");
                    cs.body = body;
                    cases.push(cs);
                    descr.push(format!("{c:?}"));
                }
                // pairs of changes (thorough, short programs): first change × every later change
                if tier == Tier::Thorough && chs.len() <= 120 {
                    for i in 0..chs.len() {
                        for j in (i + 1)..chs.len() {
                            let same_pos = match (&chs[i], &chs[j]) {
                                (Change::Block(a, _), Change::Block(b, _)) => a == b,
                                (x, y) => pos_of(x) == pos_of(y) && !matches!(x, Change::Block(..)) && !matches!(y, Change::Block(..)),
                            };
                            if same_pos {
                                continue;
                            }
                            let body = render(&toks, &[chs[i].clone(), chs[j].clone()]);
                            let mut cs = base_case.clone();
                            cs.name = format!("{name} | {:?} + {:?}", chs[i], chs[j]);
                            cs.body = body;
                            cases.push(cs);
                            descr.push(format!("{:?} + {:?}", chs[i], chs[j]));
                        }
                    }
                }
                let mut base_sig: Option<String> = None;
                let n_cases = cases.len() as u64;
                run_cases(out, base_idx, &cases, 250, COpts::default(), ROpts { budget: u32::MAX, max_steps: 200_000 }, |out, k, c, r| {
                    let sig = obs_sig(r);
                    if k == 0 {
                        base_sig = Some(sig.clone());
                        out.class(&format!("base:{}", sig.split(' ').take(2).collect::<Vec<_>>().join(" ")));
                        return;
                    }
                    out.nontrivial_text(&c.name);
                    if k % 211 == 0 {
                        out.sample(json!({"case": c.name, "body": c.body}));
                    }
                    match &base_sig {
                        Some(b) if *b == sig => out.class(&format!("same:{}", descr[k].split('(').next().unwrap_or("?"))),
                        Some(b) => {
                            out.class("violation");
                            out.violation(
                                vec![format!("input:{}", hkey(&c.name)), format!("change:{}", descr[k].split('(').next().unwrap_or("?"))],
                                format!("{}: behaviour changed: {} (unchanged program: {})", c.name, sig, b),
                                json!({"case": c.name, "program": c.standalone(), "unchanged_program": cases[0].standalone(), "observed": sig, "unchanged": b}),
                            );
                        }
                        None => {
                            // replay of a single case: compute the base on the fly
                            let b = crate::batch::run_batch(std::slice::from_ref(&cases[0]), COpts::default(), ROpts { budget: u32::MAX, max_steps: 200_000 });
                            let bs = obs_sig(&b[0]);
                            if bs != sig {
                                out.class("violation");
                                out.violation(
                                    vec![format!("input:{}", hkey(&c.name))],
                                    format!("{}: behaviour changed: {} (unchanged program: {})", c.name, sig, bs),
                                    json!({"case": c.name, "program": c.standalone(), "observed": sig, "unchanged": bs}),
                                );
                            }
                        }
                    }
                });
                base_idx += n_cases;
            }
            return;
        }
        // (b) repository corpus: comments in every gap of the real token stream
        let fi = Self::corpus_files(tier)[unit - ngen];
        let f = &tu::corpus()[fi];
        let toks = tu::tokenize(&f.text);
        let run_text = |text: &str| -> String {
            let src = tu::src_for(text);
            match drive::compile(&src, COpts::default()) {
                drive::Compiled::Ok(p) => {
                    let mut host = StdHost::default();
                    host.lines = (0..8).map(|i| format!("line{i}")).collect();
                    let r = drive::run(&p, &src.host_table(), host, ROpts { budget: u32::MAX, max_steps: 300_000 });
                    let end = match &r.end {
                        End::Error { kind, .. } => format!("error:{kind}"),
                        End::Fault(p) => format!("fault {}", p.site_key()),
                        e => e.class(),
                    };
                    format!("ran end={end} out={:?} top={:?}", r.host.out, r.top)
                }
                drive::Compiled::Diag(d) => format!("rejected: {}", tu::diag_class(&d)),
                drive::Compiled::Panic(p) => format!("compiler panic {}", p.site_key()),
            }
        };
        let mut case = 0u64;
        let mut base: Option<String> = None;
        let mut one = |out: &mut UnitOut, desc: String, text: String, base: &mut Option<String>| {
            let idx = case;
            case += 1;
            if !out.begin_case(idx) && idx != 0 {
                return;
            }
            out.describe_case(&format!("{} | {desc}\n{text}", f.name));
            let sig = run_text(&text);
            if idx == 0 {
                out.class(&format!("corpus-base:{}", sig.split(' ').take(2).collect::<Vec<_>>().join(" ")));
                *base = Some(sig);
                return;
            }
            out.evaluations += 1;
            out.nontrivial_text(&format!("{}|{desc}", f.name));
            let b = base.clone().unwrap_or_default();
            if sig == b {
                out.class("corpus-same");
            } else {
                out.class("violation");
                out.violation(
                    vec![format!("input:{}", hkey(&format!("{}|{desc}", f.name))), "change:corpus-comment".into()],
                    format!("{} | {desc}: behaviour changed: {sig} (unchanged: {b})", f.name),
                    json!({"file": f.name, "change": desc, "program": text, "observed": sig, "unchanged": b}),
                );
            }
        };
        one(out, "unchanged".into(), f.text.clone(), &mut base);
        // token gaps: before every non-space token that follows another token on the same line
        let menu: Vec<&str> = tier.pick(vec!["/* c */", "/* a*b */"], BLOCK_COMMENTS.to_vec());
        for (ti, t) in toks.iter().enumerate() {
            if matches!(t.kind, tu::TK::Space | tu::TK::Newline | tu::TK::Comment) {
                continue;
            }
            for c in &menu {
                // a comment glued to a preceding `/` or `*` would not be a comment (`//**/`, `*/`): keep one blank between
                let sep = if f.text[..t.lo].ends_with(['/', '*']) { " " } else { "" };
                let text = format!("{}{sep}{} {}", &f.text[..t.lo], c, &f.text[t.lo..]);
                one(out, format!("{c} before token #{ti} at byte {}", t.lo), text, &mut base);
            }
        }
        for (ti, t) in toks.iter().enumerate() {
            if t.kind == tu::TK::Newline {
                for c in &LINE_COMMENTS[..tier.pick(1, 3)] {
                    let text = format!("{} {}{}", &f.text[..t.lo], c, &f.text[t.lo..]);
                    one(out, format!("{c} at line end (token #{ti})"), text, &mut base);
                }
            }
        }
    }
    fn rule(&self, tier: Tier) -> String {
        format!(
            "(a) {} generated programs (stratified selection of U-prog): EVERY single layout change — one of {} block comments in every gap between two tokens, one of {} line comments at every line end, every statement \
             separator written as `;`, a blank line at every statement boundary{} — compiled in dispatcher batches and run; (b) the {} shortest repository corpus programs: a block comment before every token and a line comment at \
             every line end (conservative tokenizer that re-joins to the identical text). Oracle: compile verdict and run observation (emits, output, end kind) identical to the unchanged program; non-trivial = every changed variant",
            Self::gen_programs(tier).len(),
            BLOCK_COMMENTS.len(),
            LINE_COMMENTS.len(),
            if tier == Tier::Thorough { ", and all pairs of changes on programs with <= 120 single changes" } else { "" },
            Self::corpus_files(tier).len()
        )
    }
    fn assumptions(&self) -> Vec<String> {
        vec![
            "block comments containing a newline and `,`/newline flips of list separators are not generated (the generator's printer does not mark list separators)".into(),
            "reported error locations are not compared (inserted newlines legitimately shift line numbers); the error kind is".into(),
            "the property's 'random comment insertion' is replaced by every single insertion position x a fixed comment menu".into(),
        ]
    }
}

fn pos_of(c: &Change) -> usize {
    match c {
        Change::Block(p, _) | Change::Line(p, _) | Change::Semi(p) | Change::Blank(p) | Change::Join(p) | Change::BraceBreak(p, _) => *p,
    }
}
