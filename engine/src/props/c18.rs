//! C18 — named and default arguments behave like the positional call.
//!
//! Universe: every parameter list of arity 1..=N (N = 2 quick, 3 thorough) with every subset of
//! defaulted parameters × callee kind / call syntax {free function, member function called with
//! method syntax, member function called in the qualified form `Ty.m(recv, ..)`, static member
//! function, struct constructor, enum variant constructor `En.Vr(..)`, enum variant constructor
//! with leading dot `.Vr(..)`} × every valid call shape (p positional arguments, then any subset
//! of the remaining parameters by name in any order, omitting only defaulted ones) and every
//! misuse shape derived from a valid one.
//!
//! Model: the callee receives, for parameter i, the supplied value or else its default; argument
//! expressions and the defaults that are filled in are evaluated exactly once, in parameter order,
//! before the callee body runs (that is the positional call with the defaults written out).

use super::features_util::{Want, chunk, judge, n_chunks, permutations};
use crate::batch::{Case, run_cases};
use crate::drive::{COpts, ROpts};
use crate::fw::{Prop, Tier, UnitOut};
use serde_json::json;

pub struct C18;

#[derive(Clone, Copy, PartialEq, Eq, Debug)]
pub enum Kind {
    Free,
    Method,
    MethodQual,
    Static,
    Struct,
    EnumQual,
    EnumDot,
}
pub const KINDS: [Kind; 7] =
    [Kind::Free, Kind::Method, Kind::MethodQual, Kind::Static, Kind::Struct, Kind::EnumQual, Kind::EnumDot];

impl Kind {
    fn tag(self) -> &'static str {
        match self {
            Kind::Free => "free-fn",
            Kind::Method => "method(recv.m(..))",
            Kind::MethodQual => "method-qualified(Ty.m(recv,..))",
            Kind::Static => "static-method(Ty.m(..))",
            Kind::Struct => "struct-ctor",
            Kind::EnumQual => "enum-ctor(En.Vr(..))",
            Kind::EnumDot => "enum-ctor(.Vr(..))",
        }
    }
}

const PN: [&str; 3] = ["pa", "pb", "pc"];
const XN: [&str; 3] = ["xa", "xb", "xc"];
const TR_DECL: &str = "fn tr(k: int) -> int {\nvh_emit_int(k)\nk\n}";

#[derive(Clone, Copy, PartialEq, Eq, Debug)]
pub struct Sig {
    n: usize,
    dmask: u32,
    traced_defaults: bool,
}
impl Sig {
    fn has_default(&self, i: usize) -> bool {
        self.dmask >> i & 1 == 1
    }
    fn tag(&self) -> String {
        let bits: String = (0..self.n).map(|i| if self.has_default(i) { 'd' } else { 'r' }).collect();
        format!("{}{}_{}", self.n, bits, if self.traced_defaults { "t" } else { "l" })
    }
    fn default_expr(&self, i: usize) -> String {
        if self.traced_defaults { format!("tr({})", 11 + i) } else { format!("{}", 11 + i) }
    }
    fn params(&self, sep: &str) -> String {
        (0..self.n)
            .map(|i| {
                if self.has_default(i) {
                    format!("{}: int = {}", PN[i], self.default_expr(i))
                } else {
                    format!("{}: int", PN[i])
                }
            })
            .collect::<Vec<_>>()
            .join(sep)
    }
    fn emit_params(&self, prefix: &str) -> String {
        (0..self.n).map(|i| format!("vh_emit_int({prefix}{})\n", PN[i])).collect()
    }
}

fn decls(kind: Kind, s: &Sig, traced_args: bool) -> Vec<String> {
    let t = s.tag();
    let mut d = vec![];
    if traced_args || s.traced_defaults {
        d.push(TR_DECL.to_string());
    }
    match kind {
        Kind::Free => d.push(format!(
            "fn ff_{t}({}) -> int {{\nvh_emit_int(-1)\n{}0\n}}",
            s.params(", "),
            s.emit_params("")
        )),
        Kind::Method | Kind::MethodQual | Kind::Static => d.push(format!(
            "type Rc_{t} = {{\nid: int\n}}\nextend Rc_{t} {{\nfn mm(self, {p}) -> int {{\nvh_emit_int(-1)\nvh_emit_int(self.id)\n{e}0\n}}\nfn sm({p}) -> int {{\nvh_emit_int(-1)\n{e}0\n}}\n}}",
            p = s.params(", "),
            e = s.emit_params("")
        )),
        Kind::Struct => d.push(format!("type St_{t} = {{\n{}\n}}", s.params("\n"))),
        Kind::EnumQual | Kind::EnumDot => d.push(format!("type En_{t} =\n| Vr({})\n| Ot", s.params(", "))),
    }
    d
}

#[derive(Clone, Debug, PartialEq, Eq)]
struct Arg {
    name: Option<String>,
    val: String,
}

fn args_text(a: &[Arg]) -> String {
    a.iter()
        .map(|x| match &x.name {
            Some(n) => format!("{n} = {}", x.val),
            None => x.val.clone(),
        })
        .collect::<Vec<_>>()
        .join(", ")
}

fn body(kind: Kind, s: &Sig, args: &[Arg]) -> String {
    let t = s.tag();
    let a = args_text(args);
    match kind {
        Kind::Free => format!("let rr = ff_{t}({a})"),
        Kind::Method => format!("let rc = Rc_{t}(77)\nlet rr = rc.mm({a})"),
        Kind::MethodQual => {
            let a2 = if a.is_empty() { "rc".to_string() } else { format!("rc, {a}") };
            format!("let rc = Rc_{t}(77)\nlet rr = Rc_{t}.mm({a2})")
        }
        Kind::Static => format!("let rr = Rc_{t}.sm({a})"),
        Kind::Struct => format!("let ss = St_{t}({a})\nvh_emit_int(-1)\n{}", s.emit_params("ss.").trim_end()),
        Kind::EnumQual | Kind::EnumDot => {
            let ctor = if kind == Kind::EnumQual {
                format!("let ee = En_{t}.Vr({a})")
            } else {
                format!("let ee: En_{t} = .Vr({a})")
            };
            let pats = (0..s.n).map(|i| XN[i]).collect::<Vec<_>>().join(", ");
            let em: String = (0..s.n).map(|i| format!("vh_emit_int({})\n", XN[i])).collect();
            format!("{ctor}\nvh_emit_int(-1)\nmatch ee {{\n.Vr({pats}) -> {{\n{em}}}\n.Ot -> vh_emit_int(-2)\n}}")
        }
    }
}

/// a valid call shape: the first `p` parameters positionally, then `named` (parameter indices in call order)
#[derive(Clone, Debug)]
struct Shape {
    p: usize,
    named: Vec<usize>,
}

fn valid_shapes(s: &Sig) -> Vec<Shape> {
    let mut v = vec![];
    for p in 0..=s.n {
        let rest: Vec<usize> = (p..s.n).collect();
        for m in 0u32..(1 << rest.len()) {
            let chosen: Vec<usize> = rest.iter().enumerate().filter(|(k, _)| m >> k & 1 == 1).map(|(_, i)| *i).collect();
            let omitted_ok = rest.iter().all(|i| chosen.contains(i) || s.has_default(*i));
            if !omitted_ok {
                continue;
            }
            for perm in permutations(&chosen) {
                v.push(Shape { p, named: perm });
            }
        }
    }
    v
}

/// independent closed form of `valid_shapes(s).len()`
fn valid_shapes_closed_form(s: &Sig) -> u64 {
    fn fact(n: u64) -> u64 {
        (1..=n).product::<u64>().max(1)
    }
    fn binom(n: u64, k: u64) -> u64 {
        fact(n) / (fact(k) * fact(n - k))
    }
    let mut total = 0;
    for p in 0..=s.n {
        let req = (p..s.n).filter(|i| !s.has_default(*i)).count() as u64;
        let def = (p..s.n).filter(|i| s.has_default(*i)).count() as u64;
        for j in 0..=def {
            total += binom(def, j) * fact(req + j);
        }
    }
    total
}

fn val(i: usize, traced: bool) -> String {
    if traced { format!("tr({})", i + 1) } else { format!("{}", i + 1) }
}

fn shape_args(sh: &Shape, traced: bool) -> Vec<Arg> {
    let mut a: Vec<Arg> = (0..sh.p).map(|i| Arg { name: None, val: val(i, traced) }).collect();
    for i in &sh.named {
        a.push(Arg { name: Some(PN[*i].to_string()), val: val(*i, traced) });
    }
    a
}

fn supplied(sh: &Shape, i: usize) -> bool {
    i < sh.p || sh.named.contains(&i)
}

fn model(kind: Kind, s: &Sig, sh: &Shape, traced_args: bool) -> Vec<i64> {
    let mut t = vec![];
    for i in 0..s.n {
        if supplied(sh, i) {
            if traced_args {
                t.push(i as i64 + 1);
            }
        } else if s.traced_defaults {
            t.push(11 + i as i64);
        }
    }
    t.push(-1);
    if matches!(kind, Kind::Method | Kind::MethodQual) {
        t.push(77);
    }
    for i in 0..s.n {
        t.push(if supplied(sh, i) { i as i64 + 1 } else { 11 + i as i64 });
    }
    t
}

fn sigs(tier: Tier, traced_defaults: bool) -> Vec<Sig> {
    let maxn = tier.pick(2, 3);
    let mut v = vec![];
    for n in 1..=maxn {
        for dmask in 0..(1u32 << n) {
            v.push(Sig { n, dmask, traced_defaults });
        }
    }
    v
}

struct Item {
    case: Case,
    want: Want,
    stratum: &'static str,
    nontrivial: bool,
}

fn mk(kind: Kind, s: &Sig, args: &[Arg], traced_args: bool, label: &str, want: Want, stratum: &'static str, nontrivial: bool) -> Item {
    let name = format!(
        "C18 {} params({}) call({}) [{}]",
        kind.tag(),
        s.params(", "),
        args_text(args),
        label
    );
    let mut case = Case::new(name, body(kind, s, args));
    case.decls = decls(kind, s, traced_args);
    Item { case, want, stratum, nontrivial }
}

/// stratum 0: valid shapes, side-effect-free arguments and literal defaults, plus traced arguments
fn items_valid(tier: Tier, kind: Kind) -> Vec<Item> {
    let mut v = vec![];
    for s in sigs(tier, false) {
        let shapes = valid_shapes(&s);
        assert_eq!(shapes.len() as u64, valid_shapes_closed_form(&s), "enumerator vs closed form for {s:?}");
        for traced in [false, true] {
            for sh in &shapes {
                let nontrivial = !sh.named.is_empty() || (0..s.n).any(|i| !supplied(sh, i));
                v.push(mk(
                    kind,
                    &s,
                    &shape_args(sh, traced),
                    traced,
                    if traced { "valid, traced arguments" } else { "valid" },
                    Want::Emits(model(kind, &s, sh, traced)),
                    if traced { "valid-traced-args" } else { "valid" },
                    nontrivial,
                ));
            }
        }
    }
    v
}

/// stratum 1: defaults are tracing calls `tr(11+i)`; only shapes that fill in at least one default
fn items_traced_defaults(tier: Tier, kind: Kind) -> Vec<Item> {
    let mut v = vec![];
    for s in sigs(tier, true) {
        if s.dmask == 0 {
            continue;
        }
        for sh in valid_shapes(&s) {
            if (0..s.n).all(|i| supplied(&sh, i)) {
                continue;
            }
            v.push(mk(
                kind,
                &s,
                &shape_args(&sh, true),
                true,
                "valid, traced arguments and traced defaults",
                Want::Emits(model(kind, &s, &sh, true)),
                "valid-traced-defaults",
                true,
            ));
        }
    }
    if kind == Kind::Free {
        // a default expression is resolved where the function is declared, not among the function's own parameters: it names
        // the GLOBAL `seed` although a parameter is called `seed` too; the omitting call is made from inside the function
        let d = "fn seed(n: int) -> int = 100 + n\nfn small(n: int) -> int = 1 + n\nfn rec(depth: int, seed: int -> int, off: int = seed(0)) -> int {\n  if depth == 0 {\n    off\n  } else {\n    rec(depth - 1, small)\n  }\n}";
        let mut case = Case::new(
            "C18 free-fn default `seed(0)` names a global that a parameter of the same function shadows; omitted in a recursive call".to_string(),
            "vh_emit_int(rec(1, small))\nvh_emit_int(rec(0, small))\nvh_emit_int(rec(0, small, 7))\nvh_emit_int(rec(2, seed))".to_string(),
        );
        case.decls = vec![d.to_string()];
        v.push(Item { case, want: Want::Emits(vec![100, 100, 7, 100]), stratum: "valid-traced-defaults", nontrivial: true });
    }
    v
}

/// stratum 2: misuse shapes, each derived from a valid shape by one edit
fn items_invalid(tier: Tier, kind: Kind) -> Vec<Item> {
    let mut v: Vec<Item> = vec![];
    let mut seen: std::collections::HashSet<String> = Default::default();
    for s in sigs(tier, false) {
        for sh in valid_shapes(&s) {
            let base = shape_args(&sh, false);
            let mut push = |args: Vec<Arg>, label: &'static str, want: Want, stratum: &'static str| {
                let it = mk(kind, &s, &args, false, label, want, stratum, true);
                if seen.insert(it.case.name.clone()) {
                    v.push(it);
                }
            };
            // unknown name appended to a complete call
            let mut a = base.clone();
            a.push(Arg { name: Some("zz".into()), val: "9".into() });
            push(a, "misuse: unknown argument name (appended)", Want::Reject, "misuse-unknown-name");
            if let Some(first_named) = base.iter().position(|x| x.name.is_some()) {
                // unknown name instead of a known one
                let mut a = base.clone();
                a[first_named].name = Some("zz".into());
                push(a, "misuse: unknown argument name (replacing)", Want::Reject, "misuse-unknown-name");
                // duplicate name
                let mut a = base.clone();
                a.push(Arg { name: base[first_named].name.clone(), val: "9".into() });
                push(a, "misuse: duplicate named argument", Want::Reject, "misuse-duplicate-name");
                // positional after named
                let mut a = base.clone();
                a.push(Arg { name: None, val: "9".into() });
                push(a, "misuse: positional argument after a named one", Want::Reject, "misuse-positional-after-named");
            }
            if sh.p >= 1 {
                // name of a parameter that was already given positionally
                for j in 0..sh.p {
                    let mut a = base.clone();
                    a.push(Arg { name: Some(PN[j].into()), val: "9".into() });
                    push(a, "misuse: named argument repeats a positional one", Want::Reject, "misuse-named-repeats-positional");
                }
            }
            // missing required: drop a supplied required parameter (the last positional or a named one)
            for (k, arg) in base.iter().enumerate() {
                let pidx = match &arg.name {
                    None => k,
                    Some(nm) => PN.iter().position(|p| p == nm).unwrap(),
                };
                if s.has_default(pidx) {
                    continue;
                }
                if arg.name.is_none() && k != sh.p - 1 {
                    continue;
                }
                let mut a = base.clone();
                a.remove(k);
                push(a, "misuse: required argument missing", Want::Reject, "misuse-missing-required");
            }
            // too many positional arguments: not in the statement's misuse list, observed only
            if sh.p == s.n {
                let mut a = base.clone();
                a.push(Arg { name: None, val: "9".into() });
                push(a, "observation: too many positional arguments", Want::NoFault, "observe-too-many-positional");
            }
        }
    }
    v
}

const STRATA: usize = 3;
const CHUNK: usize = 400;

fn items(tier: Tier, kind: Kind, stratum: usize) -> Vec<Item> {
    match stratum {
        0 => items_valid(tier, kind),
        1 => items_traced_defaults(tier, kind),
        _ => items_invalid(tier, kind),
    }
}

/// unit layout: for each kind, for each stratum, chunks of at most CHUNK cases
fn layout(tier: Tier) -> Vec<(Kind, usize, usize)> {
    let mut v = vec![];
    for k in KINDS {
        for st in 0..STRATA {
            let n = items(tier, k, st).len();
            for c in 0..n_chunks(n, CHUNK) {
                v.push((k, st, c));
            }
        }
    }
    v
}

impl Prop for C18 {
    fn id(&self) -> &'static str {
        "C18"
    }
    fn level(&self) -> &'static str {
        "exploration"
    }
    fn n_units(&self, tier: Tier) -> usize {
        layout(tier).len()
    }
    fn run_unit(&self, tier: Tier, unit: usize, out: &mut UnitOut) {
        let (kind, st, c) = layout(tier)[unit];
        let all = items(tier, kind, st);
        let (a, b) = chunk(all.len(), CHUNK, c);
        let its = &all[a..b];
        let cases: Vec<Case> = its.iter().map(|i| i.case.clone()).collect();
        // valid shapes with side-effect-free defaults are expected to compile: batch them.
        // Everything else is compiled one program per case.
        let bs = if st == 0 { 100 } else { 1 };
        run_cases(out, (c * CHUNK) as u64, &cases, bs, COpts::default(), ROpts::default(), |out, k, case, r| {
            let it = &its[k];
            if it.nontrivial {
                out.nontrivial_text(&case.name);
            }
            if k % 97 == 0 {
                out.sample(json!({"case": case.name, "body": case.body, "decls": case.decls, "expected": format!("{:?}", it.want)}));
            }
            let stratum = format!("{}|{}", kind.tag(), it.stratum);
            judge(out, &stratum, case, r, &it.want);
            out.count(&format!("cases:{}", it.stratum), 1);
        });
    }
    fn rule(&self, tier: Tier) -> String {
        format!(
            "all parameter lists of arity 1..={n} (int parameters pa,pb,pc) × every subset of defaulted parameters (defaults need not be trailing) × callee/call syntax \
             {{free fn, recv.m(..), Ty.m(recv,..), static Ty.m(..), struct constructor, En.Vr(..), .Vr(..)}} × every valid call shape (p positional, then every subset of the rest by name \
             in every order, omitting only defaulted ones; count checked against the closed form Σ_p Σ_j C(def,j)·(req+j)!) in three strata: literal arguments and literal defaults (11,12,13); \
             tracing arguments tr(i); tracing arguments and tracing defaults tr(11+i) (shapes that fill in ≥1 default). Oracle: the callee receives supplied-or-default per parameter and the \
             trace of tr() calls is the one of the positional call with defaults written out (parameter order, each exactly once, before the callee body). Misuse shapes derived from each valid shape by one edit \
             (unknown name appended / replacing, duplicate name, name of a positionally given parameter, required argument dropped, positional after named) must be rejected with a diagnostic \
             (compiled one per program; the unedited shape is in the valid stratum, so a rejection is caused by the edit); one extra positional argument is observed, not asserted. \
             non-trivial = uses a name or omits a parameter, or is a misuse shape",
            n = tier.pick(2, 3)
        )
    }
    fn assumptions(&self) -> Vec<String> {
        vec![
            "side-effect order of argument expressions in a named call is taken to be parameter order, as the property defines the call by its positional equivalent".into(),
            "'too many positional arguments' is not in the statement's misuse list: recorded as an outcome class only".into(),
            "diagnostic text is not compared; only rejected / accepted / panic".into(),
        ]
    }
    fn min_classes(&self) -> usize {
        3
    }
}
