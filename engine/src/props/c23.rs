//! C23 — `?` and `!` follow option/result semantics.
//!
//! Universe: carrier {option, result<_,int>} × payload of the tried value {int, void} × payload of the enclosing
//! function's return type {int, void} (for `?`) × operator {`?`, `!`} × input {success, failure}
//! × syntactic position of `e?` / `e!` (statement, void-payload statement, let rhs, left / right operand at
//! pending-operand depth 1..D, argument i of a call, nested call, array / tuple / struct element, index,
//! if condition, branch value, match scrutinee, while body, for body, assignment and compound-assignment
//! rhs, after an earlier success, several in one expression, inside a lambda) × enclosing return type
//! (the carrier; for `!` also plain int). Sources and the other operands trace their evaluation, a trace
//! emit follows every statement, and the caller holds a pending operand across the call.
//!
//! Model: a straight-line transcription of each template with the documented semantics: `e?` yields the
//! payload or makes the enclosing function (or lambda) return none / err(e) at once; `e!` yields the payload or
//! stops the program with the runtime error kind "panic".

use super::features_util::{Want, judge};
use crate::batch::{Case, run_cases};
use crate::drive::{COpts, ROpts};
use crate::fw::{Prop, Tier, UnitOut};
use serde_json::json;

pub struct C23;

#[derive(Clone, Copy, PartialEq, Eq, Debug)]
enum Carrier {
    Opt,
    Res,
}
#[derive(Clone, Copy, PartialEq, Eq, Debug)]
enum Op {
    Try,
    Unwrap,
}
#[derive(Clone, Copy, PartialEq, Eq, Debug)]
enum Enc {
    /// the carrier with an int payload
    Carrier,
    Int,
    /// the carrier with a void payload (`option<void>` / `result<void, int>`): the payload type of the
    /// enclosing function's return type then differs in void-ness from the tried value's payload type
    CarrierVoid,
}

const SHARED: &str = "fn tr(k: int) -> int {\nvh_emit_int(k)\nk\n}\n\
fn so(k: int, good: bool) -> option<int> {\nvh_emit_int(k)\nif good {\n.some(k)\n} else {\n.none\n}\n}\n\
fn sr(k: int, good: bool) -> result<int, int> {\nvh_emit_int(k)\nif good {\n.ok(k)\n} else {\n.err(k + 500)\n}\n}\n\
fn sov(k: int, good: bool) -> option<void> {\nvh_emit_int(k)\nif good {\n.some(nil)\n} else {\n.none\n}\n}\n\
fn srv(k: int, good: bool) -> result<void, int> {\nvh_emit_int(k)\nif good {\n.ok(nil)\n} else {\n.err(k + 500)\n}\n}\n\
fn add3(a: int, b: int, c: int) -> int {\na * 100 + b * 10 + c\n}\n\
fn idf(a: int) -> int {\na\n}\n\
type Tri = {\nf1: int\nf2: int\nf3: int\n}\n\
fn showo(o: option<int>) -> int {\nmatch o {\n.some(v) -> vh_emit_int(1000 + v)\n.none -> vh_emit_int(-100)\n}\n1\n}\n\
fn showr(r: result<int, int>) -> int {\nmatch r {\n.ok(v) -> vh_emit_int(1000 + v)\n.err(e) -> {\nvh_emit_int(-200)\nvh_emit_int(e)\n}\n}\n1\n}\n\
fn showi(v: int) -> int {\nvh_emit_int(1000 + v)\n1\n}\n\
fn showov(o: option<void>) -> int {\nmatch o {\n.some(_) -> vh_emit_int(1000)\n.none -> vh_emit_int(-100)\n}\n1\n}\n\
fn showrv(r: result<void, int>) -> int {\nmatch r {\n.ok(_) -> vh_emit_int(1000)\n.err(e) -> {\nvh_emit_int(-200)\nvh_emit_int(e)\n}\n}\n1\n}";

/// the model's machine: a trace and a stop state; after a stop nothing more is recorded
struct M {
    tr: Vec<i64>,
    op: Op,
    /// Some(Ok(k)) = `?` made the current function return the failure of source k; Some(Err(())) = `!` panicked
    stop: Option<Result<i64, ()>>,
}
impl M {
    fn t(&mut self, k: i64) -> i64 {
        if self.stop.is_none() {
            self.tr.push(k);
        }
        k
    }
    fn emit(&mut self, k: i64) {
        self.t(k);
    }
    fn src(&mut self, k: i64, good: bool) -> i64 {
        if self.stop.is_none() {
            self.tr.push(k);
            if !good {
                self.stop = Some(match self.op {
                    Op::Try => Ok(k),
                    Op::Unwrap => Err(()),
                });
            }
        }
        k
    }
}

#[derive(Clone, Copy, PartialEq, Eq, Debug)]
enum Pos {
    Stmt,
    StmtVoid,
    /// a void-payload `e?` statement inside a block that is the right operand of `+` (a pending operand is live)
    StmtVoidInOperandBlock,
    LetRhs,
    LeftOperand,
    RightOperand(usize),
    Arg(usize),
    NestedCall,
    ArrayElem,
    TupleElem,
    StructElem,
    Index,
    IfCond,
    BranchValue,
    MatchScrutinee,
    WhileBody,
    ForBody,
    AssignRhs,
    CompoundAssignRhs,
    AfterEarlierSuccess,
    ThreeInOneExpr,
    InLambda,
}

fn positions(tier: Tier) -> Vec<Pos> {
    let mut v = vec![Pos::Stmt, Pos::StmtVoid, Pos::StmtVoidInOperandBlock, Pos::LetRhs, Pos::LeftOperand];
    for d in 1..=tier.pick(2, 4) {
        v.push(Pos::RightOperand(d));
    }
    v.extend([Pos::Arg(0), Pos::Arg(1), Pos::Arg(2)]);
    v.extend([
        Pos::NestedCall,
        Pos::ArrayElem,
        Pos::TupleElem,
        Pos::StructElem,
        Pos::Index,
        Pos::IfCond,
        Pos::BranchValue,
        Pos::MatchScrutinee,
        Pos::WhileBody,
        Pos::ForBody,
        Pos::AssignRhs,
        Pos::CompoundAssignRhs,
        Pos::AfterEarlierSuccess,
        Pos::ThreeInOneExpr,
        Pos::InLambda,
    ]);
    v
}

#[derive(Clone, Copy, Debug)]
struct Cell {
    pos: Pos,
    carrier: Carrier,
    op: Op,
    enc: Enc,
    good: bool,
    /// parameter list of the function under test: 0 = (g), 1 = (aa, g, bb), 2 = (aa, u: void, g, bb): a void
    /// parameter occupies no stack slot, 3 = (cx: C ToString, g) called with nil (a generic parameter instantiated to void)
    params: u8,
}

impl Cell {
    fn opc(&self) -> &'static str {
        match self.op {
            Op::Try => "?",
            Op::Unwrap => "!",
        }
    }
    /// `src(k, good)OP`
    fn s(&self, k: &str, good: &str) -> String {
        let f = match self.carrier {
            Carrier::Opt => "so",
            Carrier::Res => "sr",
        };
        format!("{f}({k}, {good}){}", self.opc())
    }
    fn sv(&self, k: &str, good: &str) -> String {
        let f = match self.carrier {
            Carrier::Opt => "sov",
            Carrier::Res => "srv",
        };
        format!("{f}({k}, {good}){}", self.opc())
    }
    fn carrier_ty(&self) -> &'static str {
        match self.carrier {
            Carrier::Opt => "option<int>",
            Carrier::Res => "result<int, int>",
        }
    }
    fn carrier_void_ty(&self) -> &'static str {
        match self.carrier {
            Carrier::Opt => "option<void>",
            Carrier::Res => "result<void, int>",
        }
    }
    fn ret(&self) -> &'static str {
        match self.enc {
            Enc::Carrier => self.carrier_ty(),
            Enc::Int => "int",
            Enc::CarrierVoid => self.carrier_void_ty(),
        }
    }
    /// the normal return of the function under test; a void-payload function emits 2000 + value first, so the
    /// value the operator produced is still observed
    fn wrap(&self, e: &str) -> String {
        match (self.enc, self.carrier) {
            (Enc::Int, _) => e.to_string(),
            (Enc::Carrier, Carrier::Opt) => format!("option.some({e})"),
            (Enc::Carrier, Carrier::Res) => format!("result.ok({e})"),
            (Enc::CarrierVoid, Carrier::Opt) => format!("vh_emit_int(2000 + {e})\noption.some(nil)"),
            (Enc::CarrierVoid, Carrier::Res) => format!("vh_emit_int(2000 + {e})\nresult.ok(nil)"),
        }
    }
    fn fname(&self) -> String {
        format!(
            "tf_{}_{}_{}_{}{}",
            format!("{:?}", self.pos).to_lowercase().replace(['(', ')'], ""),
            match self.carrier {
                Carrier::Opt => "opt",
                Carrier::Res => "res",
            },
            match self.op {
                Op::Try => "try",
                Op::Unwrap => "unw",
            },
            match self.enc {
                Enc::Carrier => "c",
                Enc::Int => "i",
                Enc::CarrierVoid => "v",
            },
            ["", "_a3", "_av", "_ag"][self.params as usize]
        )
    }

    /// (function body statements before the standard ending, model of them returning the value `v`)
    /// The standard ending is `vh_emit_int(999)` followed by wrap(v). `InLambda` with `?` builds its own ending.
    fn body_and_model(&self, m: &mut M) -> (String, i64) {
        let g = self.good;
        let x = self.s("5", "g");
        match self.pos {
            Pos::Stmt => {
                m.src(5, g);
                m.emit(901);
                (format!("{x}\nvh_emit_int(901)\nlet v = 1"), 1)
            }
            Pos::StmtVoid => {
                m.src(5, g);
                m.emit(901);
                (format!("{}\nvh_emit_int(901)\nlet v = 1", self.sv("5", "g")), 1)
            }
            Pos::StmtVoidInOperandBlock => {
                m.t(7);
                m.src(5, g);
                m.t(8);
                m.emit(901);
                (format!("let v = tr(7) + {{\n{}\ntr(8)\n}}\nvh_emit_int(901)", self.sv("5", "g")), 15)
            }
            Pos::LetRhs => {
                m.src(5, g);
                m.emit(901);
                (format!("let v = {x}\nvh_emit_int(901)"), 5)
            }
            Pos::LeftOperand => {
                m.src(5, g);
                m.t(7);
                m.emit(901);
                (format!("let v = {x} + tr(7)\nvh_emit_int(901)"), 12)
            }
            Pos::RightOperand(d) => {
                let mut e = x.clone();
                let mut sum = 5;
                for k in (0..d).rev() {
                    e = if k == d - 1 { format!("tr({}) + {e}", 7 + k) } else { format!("tr({}) + ({e})", 7 + k) };
                }
                for k in 0..d {
                    m.t(7 + k as i64);
                    sum += 7 + k as i64;
                }
                m.src(5, g);
                m.emit(901);
                (format!("let v = {e}\nvh_emit_int(901)"), sum)
            }
            Pos::Arg(i) => {
                let mut parts = vec![];
                let mut vals = vec![];
                let mut next = 7;
                for k in 0..3 {
                    if k == i {
                        parts.push(x.clone());
                        m.src(5, g);
                        vals.push(5);
                    } else {
                        parts.push(format!("tr({next})"));
                        m.t(next);
                        vals.push(next);
                        next += 1;
                    }
                }
                m.emit(901);
                (format!("let v = add3({})\nvh_emit_int(901)", parts.join(", ")), vals[0] * 100 + vals[1] * 10 + vals[2])
            }
            Pos::NestedCall => {
                m.t(7);
                m.t(8);
                m.src(5, g);
                m.t(9);
                m.t(6);
                m.emit(901);
                let inner = 8 * 100 + 5 * 10 + 9;
                (format!("let v = add3(tr(7), idf(add3(tr(8), {x}, tr(9))), tr(6))\nvh_emit_int(901)"), 7 * 100 + inner * 10 + 6)
            }
            Pos::ArrayElem => {
                m.t(7);
                m.src(5, g);
                m.t(8);
                m.emit(901);
                (format!("let arr = [tr(7), {x}, tr(8)]\nvh_emit_int(901)\nlet v = arr[1]"), 5)
            }
            Pos::TupleElem => {
                m.t(7);
                m.src(5, g);
                m.emit(901);
                (format!("let tp = (tr(7), {x})\nvh_emit_int(901)\nlet (aa, v) = tp"), 5)
            }
            Pos::StructElem => {
                m.t(7);
                m.src(5, g);
                m.t(8);
                m.emit(901);
                (format!("let st = Tri(tr(7), {x}, tr(8))\nvh_emit_int(901)\nlet v = st.f2"), 5)
            }
            Pos::Index => {
                m.src(1, g);
                m.emit(901);
                (format!("let arr = [10, 20, 30]\nlet v = arr[{}]\nvh_emit_int(901)", self.s("1", "g")), 20)
            }
            Pos::IfCond => {
                m.src(5, g);
                m.emit(902);
                m.emit(901);
                (format!("var v = 0\nif {x} == 5 {{\nv = 1\nvh_emit_int(902)\n}} else {{\nvh_emit_int(903)\n}}\nvh_emit_int(901)"), 1)
            }
            Pos::BranchValue => {
                // success input takes the then-branch, failure input the else-branch (whose source fails)
                if g {
                    m.src(5, true);
                } else {
                    m.src(6, false);
                }
                m.emit(901);
                (format!("let v = if g {{\n{}\n}} else {{\n{}\n}}\nvh_emit_int(901)", self.s("5", "g"), self.s("6", "g")), 5)
            }
            Pos::MatchScrutinee => {
                m.src(5, g);
                m.emit(901);
                (format!("let v = match {x} {{\n5 -> 1\n_ -> 2\n}}\nvh_emit_int(901)"), 1)
            }
            Pos::WhileBody => {
                for i in 1..=3 {
                    m.src(i, g || i < 2);
                    m.emit(900 + i);
                }
                (
                    format!(
                        "var v = 0\nvar i = 0\nwhile i < 3 {{\ni = i + 1\nv = v + {}\nvh_emit_int(900 + i)\n}}",
                        self.s("i", "(g or (i < 2))")
                    ),
                    6,
                )
            }
            Pos::ForBody => {
                for i in 1..=3 {
                    m.src(i, g || i < 2);
                    m.emit(900 + i);
                }
                (format!("var v = 0\nfor i in [1, 2, 3] {{\nv = v + {}\nvh_emit_int(900 + i)\n}}", self.s("i", "(g or (i < 2))")), 6)
            }
            Pos::AssignRhs => {
                m.src(5, g);
                m.emit(901);
                (format!("var v = 0\nv = {x}\nvh_emit_int(901)"), 5)
            }
            Pos::CompoundAssignRhs => {
                m.t(7);
                m.src(5, g);
                m.emit(901);
                (format!("var v = tr(7)\nv += {x}\nvh_emit_int(901)"), 12)
            }
            Pos::AfterEarlierSuccess => {
                m.src(1, true);
                m.emit(901);
                m.src(5, g);
                m.emit(902);
                (format!("let a1 = {}\nvh_emit_int(901)\nlet a2 = {x}\nvh_emit_int(902)\nlet v = a1 + a2", self.s("1", "true")), 6)
            }
            Pos::ThreeInOneExpr => {
                m.src(1, true);
                m.src(5, g);
                m.src(2, true);
                m.emit(901);
                (format!("let v = {} + {x} + {}\nvh_emit_int(901)", self.s("1", "true"), self.s("2", "true")), 8)
            }
            Pos::InLambda => unreachable!(),
        }
    }

    /// full text of the function under test, the model's trace of one call, and the result it returns
    /// (None when the program panicked)
    fn function(&self) -> (String, Vec<i64>, Option<Result<i64, i64>>) {
        let mut m = M { tr: vec![], op: self.op, stop: None };
        let head = format!("fn {}({}) -> {} {{\n", self.fname(), ["g: bool", "aa: int, g: bool, bb: int", "aa: int, u: void, g: bool, bb: int", "cx: C ToString, g: bool"][self.params as usize], self.ret());
        if self.pos == Pos::InLambda {
            // the lambda is the enclosing function of the operator
            let x = self.s("y", "g"); // the lambda has two parameters, so its arity differs from the enclosing function's
            m.src(5, self.good);
            m.emit(901);
            return match self.op {
                Op::Try => {
                    // lambda returns the carrier; the outer function continues after the call and returns the lambda's result
                    let void = self.enc == Enc::CarrierVoid;
                    if void {
                        m.emit(2006);
                    }
                    let lam_result: Result<i64, i64> = match m.stop.take() {
                        Some(Ok(k)) => Err(k),
                        _ => Ok(if void { 0 } else { 6 }),
                    };
                    m.emit(904);
                    let text = format!(
                        "{head}let lam: (int, int) -> {ct} = (y, z) -> {{\nlet w = {x}\nvh_emit_int(901)\n{}\n}}\nlet r = lam(5, 3)\nvh_emit_int(904)\nr\n}}",
                        match (void, self.carrier) {
                            (false, Carrier::Opt) => "option.some(w + 1)",
                            (false, Carrier::Res) => "result.ok(w + 1)",
                            (true, Carrier::Opt) => "vh_emit_int(2000 + w + 1)\noption.some(nil)",
                            (true, Carrier::Res) => "vh_emit_int(2000 + w + 1)\nresult.ok(nil)",
                        },
                        ct = self.ret()
                    );
                    (text, m.tr, Some(lam_result))
                }
                Op::Unwrap => {
                    m.emit(904);
                    m.emit(999);
                    let text = format!(
                        "{head}let lam: (int, int) -> int = (y, z) -> {{\nlet w = {x}\nvh_emit_int(901)\nw + 1\n}}\nlet v = lam(5, 3)\nvh_emit_int(904)\nvh_emit_int(999)\n{}\n}}",
                        self.wrap("v")
                    );
                    let res = if m.stop.is_some() { None } else { Some(Ok(6)) };
                    (text, m.tr, res)
                }
            };
        }
        let (stmts, v) = self.body_and_model(&mut m);
        m.emit(999);
        let void = self.enc == Enc::CarrierVoid;
        if void {
            m.emit(2000 + v);
        }
        let text = format!("{head}{stmts}\nvh_emit_int(999)\n{}\n}}", self.wrap("v"));
        let res = match m.stop {
            None => Some(Ok(if void { 0 } else { v })),
            Some(Ok(k)) => Some(Err(k)),
            Some(Err(())) => None,
        };
        (text, m.tr, res)
    }

    fn name(&self) -> String {
        format!(
            "C23 {} `{}` position={:?} enclosing-returns={} input={}{}",
            self.carrier_ty(),
            self.opc(),
            self.pos,
            self.ret(),
            if self.good { "success" } else { "failure" },
            ["", " enclosing-arity=3", " enclosing-params=(int, void, bool, int)", " enclosing-params=(generic instantiated to void, bool)"][self.params as usize]
        )
    }

    fn case_and_want(&self) -> (Case, Want) {
        let (ftext, ftrace, res) = self.function();
        let show = match (self.enc, self.carrier) {
            (Enc::Int, _) => "showi",
            (Enc::Carrier, Carrier::Opt) => "showo",
            (Enc::Carrier, Carrier::Res) => "showr",
            (Enc::CarrierVoid, Carrier::Opt) => "showov",
            (Enc::CarrierVoid, Carrier::Res) => "showrv",
        };
        // the caller holds a pending operand (40) across the call
        let call_args = match self.params {
            0 => format!("{}", self.good),
            1 => format!("1, {}, 2", self.good),
            2 => format!("1, nil, {}, 2", self.good),
            _ => format!("nil, {}", self.good),
        };
        let body = format!("let kk = tr(40) + {show}({}({call_args}))\nvh_emit_int(kk)", self.fname());
        let mut tr = vec![40];
        tr.extend(ftrace);
        let want = match res {
            None => Want::EmitsThenPanic(tr),
            Some(r) => {
                match r {
                    Ok(v) => tr.push(1000 + v),
                    Err(k) => match self.carrier {
                        Carrier::Opt => tr.push(-100),
                        Carrier::Res => tr.extend([-200, k + 500]),
                    },
                }
                tr.push(41);
                Want::Emits(tr)
            }
        };
        let c = Case::new(self.name(), body).decl(SHARED).decl(ftext);
        (c, want)
    }
}

fn cells(tier: Tier) -> Vec<Cell> {
    let mut v = vec![];
    for params in 0..4u8 {
        for pos in positions(tier) {
            for carrier in [Carrier::Opt, Carrier::Res] {
                for (op, enc) in [(Op::Try, Enc::Carrier), (Op::Unwrap, Enc::Carrier), (Op::Unwrap, Enc::Int), (Op::Try, Enc::CarrierVoid)] {
                    for good in [true, false] {
                        v.push(Cell { pos, carrier, op, enc, good, params });
                    }
                }
            }
        }
    }
    v
}

/// programs where the manual does not define the outcome precisely enough to assert (observed, fault-checked)
fn unasserted() -> Vec<Case> {
    let mk = |name: &str, decl: &str, body: &str| Case::new(format!("C23 unasserted: {name}"), body).decl(SHARED).decl(decl);
    vec![
        mk("option `?` in a function returning result", "fn mm1(g: bool) -> result<int, int> {\nlet v = so(5, g)?\nresult.ok(v)\n}", "let kk = showr(mm1(false))"),
        mk("result `?` in a function returning option", "fn mm2(g: bool) -> option<int> {\nlet v = sr(5, g)?\noption.some(v)\n}", "let kk = showo(mm2(false))"),
        mk("`?` in a function returning int", "fn mm3(g: bool) -> int {\nlet v = so(5, g)?\nv\n}", "let kk = showi(mm3(false))"),
        mk("`?` at the top level", "let top1 = so(5, false)?", ""),
        mk("`!` on an int", "fn mm4(g: bool) -> int {\nlet v = 5!\nv\n}", "let kk = showi(mm4(false))"),
        mk("`?` on an int", "fn mm5(g: bool) -> option<int> {\nlet v = 5?\noption.some(v)\n}", "let kk = showo(mm5(false))"),
    ]
}

const PER_UNIT: usize = 60;

impl Prop for C23 {
    fn id(&self) -> &'static str {
        "C23"
    }
    fn level(&self) -> &'static str {
        "exploration"
    }
    fn n_units(&self, tier: Tier) -> usize {
        cells(tier).len().div_ceil(PER_UNIT) + 1
    }
    fn expected_evaluations(&self, tier: Tier) -> Option<u64> {
        // arities × positions × carriers × (op, enclosing) × inputs + unasserted programs
        Some(4 * positions(tier).len() as u64 * 2 * 4 * 2 + unasserted().len() as u64)
    }
    fn run_unit(&self, tier: Tier, unit: usize, out: &mut UnitOut) {
        let all = cells(tier);
        let nmain = all.len().div_ceil(PER_UNIT);
        if unit == nmain {
            let cases = unasserted();
            run_cases(out, 1_000_000, &cases, 1, COpts::default(), ROpts::default(), |out, _k, case, r| {
                judge(out, "unasserted", case, r, &Want::NoFault);
            });
            return;
        }
        let a = unit * PER_UNIT;
        let b = (a + PER_UNIT).min(all.len());
        let cs = &all[a..b];
        let cw: Vec<(Case, Want)> = cs.iter().map(|c| c.case_and_want()).collect();
        let cases: Vec<Case> = cw.iter().map(|x| x.0.clone()).collect();
        run_cases(out, a as u64, &cases, 30, COpts::default(), ROpts::default(), |out, k, case, r| {
            let cell = &cs[k];
            out.nontrivial_text(&case.name);
            if k % 23 == 0 {
                out.sample(json!({"case": case.name, "program": case.standalone(), "expected": format!("{:?}", cw[k].1)}));
            }
            let stratum = format!(
                "{}{}|payload tried={} enclosing={}|{}",
                match cell.carrier {
                    Carrier::Opt => "option",
                    Carrier::Res => "result",
                },
                cell.opc(),
                if matches!(cell.pos, Pos::StmtVoid | Pos::StmtVoidInOperandBlock) { "void" } else { "int" },
                match cell.enc {
                    Enc::Carrier => "int",
                    Enc::CarrierVoid => "void",
                    Enc::Int => "none(returns int)",
                },
                if cell.good { "success" } else { "failure" }
            );
            judge(out, &stratum, case, r, &cw[k].1);
        });
    }
    fn rule(&self, tier: Tier) -> String {
        format!(
            "carrier {{option, result<_,int>}} × (operator, enclosing return type) {{(?, carrier<int>), (!, carrier<int>), (!, int), (?, carrier<void>)}} × tried payload {{int; void at the positions StmtVoid and StmtVoidInOperandBlock}} \
             (so for `?` the payload types of the tried value and of the enclosing function's return type range over {{int, void}}², e.g. a `result<void, int>` function doing `let v = sr(5, g)?`, an `option<int>` function doing `sov(5, g)?`; \
             a void-payload function emits 2000 + the value before returning, so the value the operator produced is always used afterwards) × input {{success, failure}} × parameter list of the enclosing function {:?} (a void parameter occupies no stack slot; the in-lambda position uses a two-parameter lambda) × {} positions {:?}; \
             sources so/sr(k, good) emit k when evaluated, other operands are tr(k), a trace emit follows every statement and 999 precedes the normal return; the caller evaluates \
             `tr(40) + show(f(input))` so a pending operand is live across the early return, and emits 41 afterwards. Oracle: transcription of each template: `?` on failure returns none / err(k+500) from the \
             enclosing function (for the in-lambda position: from the lambda; the outer function continues) with nothing after it evaluated; `!` on failure ends the program with runtime error kind panic after exactly \
             the emits up to the failing source; on success both yield the payload. Every case is non-trivial. {} further programs (carrier/return-type mismatch, `?` at top level, operators on int) are only fault-checked",
            ["(g)", "(aa, g, bb)", "(aa, u: void, g, bb)", "(cx: C ToString called with nil, g)"],
            positions(tier).len(),
            positions(tier),
            unasserted().len()
        )
    }
    fn assumptions(&self) -> Vec<String> {
        vec![
            "for `?` inside a lambda the lambda is taken to be the enclosing function".into(),
            "what a carrier/return-type mismatch must produce is not asserted (the manual only says the types must be compatible)".into(),
        ]
    }
    fn min_classes(&self) -> usize {
        3
    }
}
