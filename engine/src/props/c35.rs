//! C35 — go-to-definition and hover agree with the compiler.
//!
//! Stratum A (shadowing): every program made of a chain of ≤ 3 nested scopes below the top level
//! (block, function, lambda, match arm, `for`), with 1 or 2 names, where every scope independently
//! binds each name in one of the ways {not at all, by its binder (parameter / pattern / loop
//! variable), by `let`, by a self-referential `let x = pk(.., x, ..)`, binder + let, binder +
//! self-referential let}. Every binding gets its own constant; every place where a name is
//! resolvable (scope entry, after the lets, after the nested scope, inside a self-referential
//! initialiser) holds a use that reports `(use id, value)` to the host. Running the COMPILED
//! program therefore tells which binding each use really denotes. `definition_at` is then asked at
//! every byte of every use and must return exactly that binding's byte range (whose text is the
//! name); `type_at` must say `int`.
//!
//! Stratum B (non-ASCII, confined): the depth ≤ 1 programs of stratum A with a comment containing
//! non-ASCII characters on the first line (offsets passed to / returned by the LSP API are bytes).
//!
//! Stratum C (hover): a value of each of 14 simple types bound by `let`, function parameter,
//! lambda parameter (inferred), match binding and loop variable; `type_at` on the use must print
//! the type in the documented type syntax (`fn(..) -> ..` and `(..) -> ..` both accepted for
//! functions, white space ignored).

use crate::drive::{self, COpts, Compiled, Emit, End, ROpts, Src, StdHost};
use crate::fw::{Prop, Tier, UnitOut, hkey};
use serde_json::json;
use std::collections::HashMap;
use std::path::Path;

pub struct C35;

#[derive(Clone, Copy, PartialEq, Eq, Debug)]
enum SK {
    Block,
    Fn,
    Lambda,
    Arm,
    For,
}
const INNER_KINDS: [SK; 4] = [SK::Block, SK::Lambda, SK::Arm, SK::For];
const FIRST_KINDS: [SK; 5] = [SK::Block, SK::Fn, SK::Lambda, SK::Arm, SK::For];

#[derive(Clone, Copy, PartialEq, Eq, Debug)]
enum Mode {
    None,
    Binder,
    Let,
    SelfRef,
    BinderLet,
    BinderSelf,
}
impl Mode {
    fn binder(self) -> bool {
        matches!(self, Mode::Binder | Mode::BinderLet | Mode::BinderSelf)
    }
    fn plain_let(self) -> bool {
        matches!(self, Mode::Let | Mode::BinderLet)
    }
    fn self_let(self) -> bool {
        matches!(self, Mode::SelfRef | Mode::BinderSelf)
    }
}
const MODES6: [Mode; 6] = [Mode::None, Mode::Binder, Mode::Let, Mode::SelfRef, Mode::BinderLet, Mode::BinderSelf];
const MODES4: [Mode; 4] = [Mode::None, Mode::Binder, Mode::Let, Mode::SelfRef];
const MODES3: [Mode; 3] = [Mode::None, Mode::Binder, Mode::Let];
const MODES0: [Mode; 2] = [Mode::None, Mode::Let];
const NAMES: [&str; 2] = ["x", "y"];

/// scope nests of depth exactly d
fn nests(d: usize) -> Vec<Vec<SK>> {
    let mut out: Vec<Vec<SK>> = vec![vec![]];
    for lvl in 0..d {
        let mut next = vec![];
        for n in &out {
            let ks: &[SK] = if lvl == 0 { &FIRST_KINDS } else { &INNER_KINDS };
            for k in ks {
                let mut m = n.clone();
                m.push(*k);
                next.push(m);
            }
        }
        out = next;
    }
    out
}

/// A family: one nest, a number of names, a mode alphabet for the nested levels, a non-ASCII prefix.
#[derive(Clone, Debug)]
struct Family {
    kinds: Vec<SK>,
    names: usize,
    alphabet: &'static [Mode],
    /// number of non-ASCII characters in the comment on line 1 (0 = plain ASCII comment)
    nonascii: usize,
}
impl Family {
    /// digits: names at level 0 (alphabet MODES0), then names × levels 1..=d
    fn radices(&self) -> Vec<usize> {
        let mut r = vec![MODES0.len(); self.names];
        for _ in 0..self.kinds.len() {
            for _ in 0..self.names {
                r.push(self.alphabet.len());
            }
        }
        r
    }
    fn size(&self) -> u64 {
        self.radices().iter().map(|x| *x as u64).product()
    }
    fn decode(&self, mut idx: u64) -> Vec<Vec<Mode>> {
        let mut modes = vec![];
        let mut lvl0 = vec![];
        for _ in 0..self.names {
            lvl0.push(MODES0[(idx % MODES0.len() as u64) as usize]);
            idx /= MODES0.len() as u64;
        }
        modes.push(lvl0);
        for _ in 0..self.kinds.len() {
            let mut l = vec![];
            for _ in 0..self.names {
                l.push(self.alphabet[(idx % self.alphabet.len() as u64) as usize]);
                idx /= self.alphabet.len() as u64;
            }
            modes.push(l);
        }
        modes
    }
    fn text(&self) -> String {
        format!(
            "nest={:?} names={} modes={} nonascii={}",
            self.kinds,
            self.names,
            self.alphabet.len(),
            self.nonascii
        )
    }
}

fn families(tier: Tier) -> Vec<Family> {
    let mut v = vec![];
    let fam = |kinds: &Vec<SK>, names, alphabet, nonascii| Family { kinds: kinds.clone(), names, alphabet, nonascii };
    match tier {
        Tier::Quick => {
            for d in 0..=2 {
                for n in nests(d) {
                    v.push(fam(&n, 1, &MODES6[..], 0));
                }
            }
            for d in 1..=1 {
                for n in nests(d) {
                    v.push(fam(&n, 2, &MODES6[..], 0));
                }
            }
            for n in nests(2) {
                v.push(fam(&n, 2, &MODES3[..], 0));
            }
        }
        Tier::Thorough => {
            for d in 0..=3 {
                for n in nests(d) {
                    v.push(fam(&n, 1, &MODES6[..], 0));
                }
            }
            for n in nests(1) {
                v.push(fam(&n, 2, &MODES6[..], 0));
            }
            for n in nests(2) {
                v.push(fam(&n, 2, &MODES4[..], 0));
            }
        }
    }
    // confined non-ASCII stratum
    for d in 0..=1 {
        for n in nests(d) {
            for k in [1usize, 3] {
                v.push(fam(&n, 1, &MODES6[..], k));
            }
        }
    }
    v
}

// ------------------------------------------------------------------ generator

#[derive(Clone, Debug)]
struct Binding {
    name: String,
    lo: usize,
    hi: usize,
    konst: i64,
    how: String,
}
#[derive(Clone, Debug)]
struct Use {
    uid: i64,
    name: String,
    lo: usize,
    hi: usize,
    /// binding the reference model (innermost binding in scope) predicts
    model: usize,
    /// true when the use reports its value to the host (variable uses); false for uses of
    /// uniquely declared function / lambda names
    observed: bool,
}
struct Frame {
    barrier: bool,
    map: HashMap<String, usize>,
}
struct Gen {
    text: String,
    bindings: Vec<Binding>,
    uses: Vec<Use>,
    shadowing: bool,
}

struct G<'a> {
    fam: &'a Family,
    modes: &'a [Vec<Mode>],
    s: String,
    bindings: Vec<Binding>,
    uses: Vec<Use>,
    env: Vec<Frame>,
    next_uid: i64,
    ok: bool,
}

impl G<'_> {
    fn d(&self) -> usize {
        self.fam.kinds.len()
    }
    fn names(&self) -> Vec<&'static str> {
        NAMES[..self.fam.names].to_vec()
    }
    fn raw(&mut self, t: &str) {
        self.s.push_str(t);
    }
    fn ind(&mut self, n: usize) {
        for _ in 0..n {
            self.s.push_str("  ");
        }
    }
    fn ident(&mut self, name: &str) -> (usize, usize) {
        let lo = self.s.len();
        self.s.push_str(name);
        (lo, self.s.len())
    }
    fn resolve(&self, name: &str) -> Option<usize> {
        for f in self.env.iter().rev() {
            if let Some(b) = f.map.get(name) {
                return Some(*b);
            }
            if f.barrier {
                return None;
            }
        }
        None
    }
    fn new_binding(&mut self, name: &str, range: (usize, usize), how: &str) -> usize {
        let idx = self.bindings.len();
        self.bindings.push(Binding {
            name: name.to_string(),
            lo: range.0,
            hi: range.1,
            konst: 1000 + idx as i64,
            how: how.to_string(),
        });
        idx
    }
    fn bind(&mut self, name: &str, b: usize) {
        self.env.last_mut().unwrap().map.insert(name.to_string(), b);
    }
    fn uid(&mut self) -> i64 {
        self.next_uid += 1;
        self.next_uid
    }
    /// `us(<uid>, <name>)` statements for every resolvable name
    fn uses_here(&mut self, ind: usize) {
        for n in self.names() {
            if let Some(b) = self.resolve(n) {
                let u = self.uid();
                self.ind(ind);
                let r_us = self.ident("us");
                self.raw(&format!("({u}, "));
                let r = self.ident(n);
                self.raw(")\n");
                self.uses.push(Use { uid: u, name: n.to_string(), lo: r.0, hi: r.1, model: b, observed: true });
                // `us` itself: uniquely declared helper (binding 0)
                self.uses.push(Use { uid: 0, name: "us".into(), lo: r_us.0, hi: r_us.1, model: 0, observed: false });
            }
        }
    }
    fn lets_here(&mut self, lvl: usize, ind: usize) {
        for (ni, n) in self.names().into_iter().enumerate() {
            let m = self.modes[lvl][ni];
            if m.plain_let() {
                self.ind(ind);
                self.raw("let ");
                let r = self.ident(n);
                let b = self.new_binding(n, r, &format!("let at level {lvl}"));
                let c = self.bindings[b].konst;
                self.raw(&format!(" = {c}\n"));
                self.bind(n, b);
            } else if m.self_let() {
                let Some(outer) = self.resolve(n) else {
                    self.ok = false;
                    return;
                };
                self.ind(ind);
                self.raw("let ");
                let r = self.ident(n);
                let b = self.new_binding(n, r, &format!("self-referential let at level {lvl}"));
                let c = self.bindings[b].konst;
                let u = self.uid();
                self.raw(&format!(" = pk({u}, "));
                let ru = self.ident(n);
                self.raw(&format!(", {c})\n"));
                self.uses.push(Use { uid: u, name: n.to_string(), lo: ru.0, hi: ru.1, model: outer, observed: true });
                self.bind(n, b);
            }
        }
    }
    /// names that level `lvl` binds through its binder, in name order
    fn binder_names(&self, lvl: usize) -> Vec<&'static str> {
        self.names().into_iter().enumerate().filter(|(ni, _)| self.modes[lvl][*ni].binder()).map(|(_, n)| n).collect()
    }
    /// write the binder list `x, y` recording bindings; returns (binding ids, constants)
    fn binder_list(&mut self, lvl: usize, how: &str, typed: bool) -> Vec<usize> {
        let ns = self.binder_names(lvl);
        let mut ids = vec![];
        for (i, n) in ns.iter().enumerate() {
            if i > 0 {
                self.raw(", ");
            }
            let r = self.ident(n);
            if typed {
                self.raw(": int");
            }
            ids.push(self.new_binding(n, r, &format!("{how} at level {lvl}")));
        }
        ids
    }
    fn consts(&self, ids: &[usize]) -> Vec<String> {
        ids.iter().map(|b| self.bindings[*b].konst.to_string()).collect()
    }
    fn body(&mut self, lvl: usize, ind: usize) {
        self.uses_here(ind);
        self.lets_here(lvl, ind);
        if !self.ok {
            return;
        }
        self.uses_here(ind);
        if lvl < self.d() {
            self.nested(lvl + 1, ind);
            if !self.ok {
                return;
            }
            self.uses_here(ind);
        }
    }
    fn push_frame_with(&mut self, barrier: bool, lvl: usize, ids: &[usize]) {
        self.env.push(Frame { barrier, map: HashMap::new() });
        let ns = self.binder_names(lvl);
        for (n, b) in ns.iter().zip(ids) {
            self.bind(n, *b);
        }
    }
    fn nested(&mut self, lvl: usize, ind: usize) {
        let kind = self.fam.kinds[lvl - 1];
        if kind == SK::Block && !self.binder_names(lvl).is_empty() {
            self.ok = false;
            return;
        }
        match kind {
            SK::Block => {
                self.ind(ind);
                self.raw("if true {\n");
                self.push_frame_with(false, lvl, &[]);
                self.body(lvl, ind + 1);
                self.env.pop();
                self.ind(ind + 1);
                self.raw("nil\n");
                self.ind(ind);
                self.raw("}\n");
            }
            SK::Lambda => {
                self.ind(ind);
                self.raw("let ");
                let lname = format!("lam{lvl}");
                let r = self.ident(&lname);
                let lb = self.new_binding(&lname, r, "lambda variable");
                self.raw(" = (");
                let ids = self.binder_list(lvl, "lambda parameter", false);
                self.raw(") -> {\n");
                self.push_frame_with(false, lvl, &ids);
                self.body(lvl, ind + 1);
                self.env.pop();
                self.ind(ind + 1);
                self.raw("nil\n");
                self.ind(ind);
                self.raw("}\n");
                self.ind(ind);
                let ru = self.ident(&lname);
                self.uses.push(Use { uid: 0, name: lname.clone(), lo: ru.0, hi: ru.1, model: lb, observed: false });
                let cs = self.consts(&ids).join(", ");
                self.raw(&format!("({cs})\n"));
            }
            SK::Arm => {
                let n = self.binder_names(lvl).len();
                // the scrutinee holds the constants of the bindings the arm pattern is about to create
                let base = self.bindings.len();
                let cs: Vec<String> = (0..n).map(|i| (1000 + base + i).to_string()).collect();
                self.ind(ind);
                match n {
                    0 => self.raw("match 0 {\n"),
                    1 => self.raw(&format!("match {} {{\n", cs[0])),
                    _ => self.raw(&format!("match ({}) {{\n", cs.join(", "))),
                }
                self.ind(ind + 1);
                let ids = match n {
                    0 => {
                        self.raw("_");
                        vec![]
                    }
                    1 => self.binder_list(lvl, "match-arm pattern variable", false),
                    _ => {
                        self.raw("(");
                        let ids = self.binder_list(lvl, "match-arm pattern variable", false);
                        self.raw(")");
                        ids
                    }
                };
                debug_assert!(ids.iter().enumerate().all(|(i, b)| *b == base + i));
                self.raw(" -> {\n");
                self.push_frame_with(false, lvl, &ids);
                self.body(lvl, ind + 2);
                self.env.pop();
                self.ind(ind + 2);
                self.raw("nil\n");
                self.ind(ind + 1);
                self.raw("}\n");
                self.ind(ind);
                self.raw("}\n");
            }
            SK::For => {
                let n = self.binder_names(lvl).len();
                self.ind(ind);
                self.raw("for ");
                let ids = match n {
                    0 => {
                        self.raw("_");
                        vec![]
                    }
                    1 => self.binder_list(lvl, "for-loop variable", false),
                    _ => {
                        self.raw("(");
                        let ids = self.binder_list(lvl, "for-loop variable", false);
                        self.raw(")");
                        ids
                    }
                };
                let cs = self.consts(&ids);
                match n {
                    0 => self.raw(" in [0] {\n"),
                    1 => self.raw(&format!(" in [{}] {{\n", cs[0])),
                    _ => self.raw(&format!(" in [({})] {{\n", cs.join(", "))),
                }
                self.push_frame_with(false, lvl, &ids);
                self.body(lvl, ind + 1);
                self.env.pop();
                self.ind(ind + 1);
                self.raw("nil\n");
                self.ind(ind);
                self.raw("}\n");
            }
            SK::Fn => {
                // the definition was rendered up front; here only the call
                self.ind(ind);
                let r = self.ident("fn1");
                let fb = self.bindings.iter().position(|b| b.name == "fn1").unwrap();
                self.uses.push(Use { uid: 0, name: "fn1".into(), lo: r.0, hi: r.1, model: fb, observed: false });
                let ids: Vec<usize> =
                    self.bindings.iter().enumerate().filter(|(_, b)| b.how.starts_with("function parameter")).map(|(i, _)| i).collect();
                let cs = self.consts(&ids).join(", ");
                self.raw(&format!("({cs})\n"));
            }
        }
    }
    fn fn_def(&mut self) {
        self.raw("fn ");
        let r = self.ident("fn1");
        self.new_binding("fn1", r, "function name");
        self.raw("(");
        let ids = self.binder_list(1, "function parameter", true);
        self.raw(") -> void {\n");
        self.push_frame_with(true, 1, &ids);
        self.body(1, 1);
        self.env.pop();
        self.raw("  nil\n}\n");
    }
}

fn generate(fam: &Family, modes: &[Vec<Mode>]) -> Option<Gen> {
    let mut g = G { fam, modes, s: String::new(), bindings: vec![], uses: vec![], env: vec![], next_uid: 0, ok: true };
    if fam.nonascii == 0 {
        g.raw("// plain\n");
    } else {
        g.raw(&format!("// {}\n", "é".repeat(fam.nonascii)));
    }
    g.raw("use vh\nfn ");
    let r = g.ident("us");
    g.new_binding("us", r, "helper function");
    g.raw("(u: int, v: int) -> void {\n  vh_emit_int(u)\n  vh_emit_int(v)\n}\n");
    g.raw("fn pk(u: int, v: int, c: int) -> int {\n  vh_emit_int(u)\n  vh_emit_int(v)\n  c\n}\n");
    if fam.kinds.first() == Some(&SK::Fn) {
        g.fn_def();
        if !g.ok {
            return None;
        }
    }
    g.env.push(Frame { barrier: false, map: HashMap::new() });
    // for a function scope nested(1) only emits the call: its body was rendered in the definition
    g.body(0, 0);
    if !g.ok {
        return None;
    }
    g.raw("nil\n");
    // shadowing present: some observed use whose name has ≥ 2 bindings
    let shadowing = g.uses.iter().any(|u| u.observed && g.bindings.iter().filter(|b| b.name == u.name).count() >= 2);
    Some(Gen { text: g.s, bindings: g.bindings, uses: g.uses, shadowing })
}

/// validity without caring about the text (used for the closed-form count)
fn valid(fam: &Family, modes: &[Vec<Mode>]) -> bool {
    generate(fam, modes).is_some()
}

// ------------------------------------------------------------------ hover stratum

struct TyCase {
    /// type as hover is expected to print it (modulo white space and a leading `fn`)
    ty: &'static str,
    /// type as written in an annotation ("" = same as `ty`)
    annot: &'static str,
    expr: &'static str,
    /// expression can be typed without the annotation
    inferable: bool,
    /// the opener byte of the expression denotes the whole expression
    opener_is_whole: bool,
}
const TYPES: [TyCase; 14] = [
    TyCase { ty: "int", expr: "5", annot: "", inferable: true, opener_is_whole: true },
    TyCase { ty: "bool", expr: "true", annot: "", inferable: true, opener_is_whole: true },
    TyCase { ty: "string", expr: "\"s\"", annot: "", inferable: true, opener_is_whole: true },
    TyCase { ty: "float", expr: "1.5", annot: "", inferable: true, opener_is_whole: true },
    TyCase { ty: "(int, bool)", expr: "(1, true)", annot: "", inferable: true, opener_is_whole: true },
    TyCase { ty: "(int, (bool, string))", expr: "(1, (true, \"s\"))", annot: "", inferable: true, opener_is_whole: true },
    TyCase { ty: "(int, bool, string)", expr: "(1, true, \"s\")", annot: "", inferable: true, opener_is_whole: true },
    TyCase { ty: "array<int>", expr: "[1, 2]", annot: "", inferable: true, opener_is_whole: true },
    TyCase { ty: "array<(int, bool)>", expr: "[(1, true)]", annot: "", inferable: true, opener_is_whole: true },
    TyCase { ty: "array<array<int>>", expr: "[[1], [2, 3]]", annot: "", inferable: true, opener_is_whole: true },
    TyCase { ty: "option<int>", expr: ".some(1)", annot: "", inferable: false, opener_is_whole: false },
    TyCase { ty: "option<array<int>>", expr: ".some([1])", annot: "", inferable: false, opener_is_whole: false },
    // a one-parameter function type is written `int -> int` (the parser rejects `(int) -> int`)
    TyCase { ty: "(int) -> int", expr: "(z: int) -> z + 1", annot: "int -> int", inferable: true, opener_is_whole: false },
    TyCase { ty: "(int, bool) -> string", expr: "(za: int, zb: bool) -> \"s\"", annot: "", inferable: true, opener_is_whole: false },
];
const CONTEXTS: [&str; 6] = ["let-annotated", "let-inferred", "fn-param", "lambda-param", "match-binding", "for-variable"];

struct HoverProg {
    text: String,
    /// (lo, hi, expected type, what)
    queries: Vec<(usize, usize, String, String)>,
}

fn norm_ty(s: &str) -> String {
    s.replace(' ', "").replace("fn(", "(")
}

fn hover_prog(t: &TyCase, ctx: usize) -> Option<HoverProg> {
    let mut s = String::from("// hover\n");
    let mut q = vec![];
    let mark = |s: &mut String, txt: &str| {
        let lo = s.len();
        s.push_str(txt);
        (lo, s.len())
    };
    let ty = t.ty;
    let an = if t.annot.is_empty() { t.ty } else { t.annot };
    let e = t.expr;
    match CONTEXTS[ctx] {
        "let-annotated" => {
            s.push_str(&format!("let v: {an} = "));
            let r = mark(&mut s, e);
            if t.opener_is_whole {
                q.push((r.0, r.0 + 1, ty.to_string(), format!("first byte of `{e}`")));
            }
            s.push_str("\nlet w = ");
            let r = mark(&mut s, "v");
            q.push((r.0, r.1, ty.to_string(), "use of let-bound `v`".into()));
            s.push('\n');
        }
        "let-inferred" => {
            if !t.inferable {
                return None;
            }
            s.push_str("let v = ");
            let r = mark(&mut s, e);
            if t.opener_is_whole {
                q.push((r.0, r.0 + 1, ty.to_string(), format!("first byte of `{e}`")));
            }
            s.push_str("\nlet w = ");
            let r = mark(&mut s, "v");
            q.push((r.0, r.1, ty.to_string(), "use of let-bound `v` (no annotation)".into()));
            s.push('\n');
        }
        "fn-param" => {
            s.push_str(&format!("fn gg(p: {an}) -> {an} {{\n  "));
            let r = mark(&mut s, "p");
            q.push((r.0, r.1, ty.to_string(), "use of function parameter `p`".into()));
            s.push_str("\n}\n");
            s.push_str(&format!("let v: {an} = {e}\nlet w = "));
            let r = mark(&mut s, "gg");
            q.push((r.0, r.1, format!("({ty}) -> {ty}"), "use of function name `gg`".into()));
            s.push_str("(v)\n");
        }
        "lambda-param" => {
            s.push_str(&format!("let v: {an} = {e}\nlet lam = (q) -> {{\n  let k: {an} = "));
            let r = mark(&mut s, "q");
            q.push((r.0, r.1, ty.to_string(), "use of un-annotated lambda parameter `q` (type fixed by the annotated let it initialises)".into()));
            s.push_str("\n  1\n}\nlet w = lam(v)\n");
        }
        "match-binding" => {
            s.push_str(&format!("let v: {an} = {e}\nmatch v {{\n  m -> {{\n    let k = "));
            let r = mark(&mut s, "m");
            q.push((r.0, r.1, ty.to_string(), "use of match-bound `m`".into()));
            s.push_str("\n    nil\n  }\n}\n");
        }
        _ => {
            s.push_str(&format!("let v: {an} = {e}\nfor el in [v] {{\n  let k = "));
            let r = mark(&mut s, "el");
            q.push((r.0, r.1, ty.to_string(), "use of loop variable `el`".into()));
            s.push_str("\n  nil\n}\n");
        }
    }
    s.push_str("nil\n");
    Some(HoverProg { text: s, queries: q })
}

// ------------------------------------------------------------------ property

fn main_file_id(a: &abra_core::LspAnalysisResult) -> u32 {
    a.file_id_for_path(Path::new("main.abra")).unwrap_or(0)
}

impl Prop for C35 {
    fn id(&self) -> &'static str {
        "C35"
    }
    fn level(&self) -> &'static str {
        "exploration"
    }
    fn n_units(&self, tier: Tier) -> usize {
        families(tier).len() + 2
    }
    fn min_classes(&self) -> usize {
        3
    }
    fn expected_evaluations(&self, tier: Tier) -> Option<u64> {
        let mut n = 0u64;
        for f in families(tier) {
            for i in 0..f.size() {
                if valid(&f, &f.decode(i)) {
                    n += 1;
                }
            }
        }
        for t in &TYPES {
            for c in 0..CONTEXTS.len() {
                if hover_prog(t, c).is_some() {
                    n += 1;
                }
            }
        }
        n += member_programs().len() as u64 + generic_hover_programs().len() as u64;
        Some(n)
    }
    fn run_unit(&self, tier: Tier, unit: usize, out: &mut UnitOut) {
        let fams = families(tier);
        if unit == fams.len() {
            run_hover(out);
            return;
        }
        if unit == fams.len() + 1 {
            run_members(out);
            return;
        }
        let fam = &fams[unit];
        for i in 0..fam.size() {
            let modes = fam.decode(i);
            let Some(g) = generate(fam, &modes) else { continue };
            if !out.begin_case(i) {
                continue;
            }
            let case_text = format!("C35 {} modes={:?}", fam.text(), modes);
            out.describe_case(&format!("{case_text}\n{}", g.text));
            out.evaluations += 1;
            if g.shadowing {
                out.nontrivial_text(&case_text);
            }
            run_shadow(out, fam, &case_text, &g, i);
        }
    }
    fn rule(&self, tier: Tier) -> String {
        let fams = families(tier);
        let d1 = fams.iter().filter(|f| f.names == 1 && f.nonascii == 0).map(|f| f.kinds.len()).max().unwrap_or(0);
        let d2 = fams.iter().filter(|f| f.names == 2).map(|f| f.kinds.len()).max().unwrap_or(0);
        format!(
            "A: every chain of nested scopes below the top level (first scope in {{block, function, lambda, match arm, for}}, inner scopes in {{block, lambda, match arm, for}}) \
             of depth <= {d1} with one name and depth <= {d2} with two names; per scope and name every binding mode of the family's alphabet \
             (6 modes: none / binder / let / self-referential let / binder+let / binder+self-let; the two-name depth-2 families use the first {} modes; top level: none / let); \
             combinations the language cannot express (binder mode on a block, self-referential let with nothing to refer to) are not in the universe. \
             Uses are placed at scope entry, after the lets, after the nested scope and inside every self-referential initialiser, for every name the reference scoping model can resolve there. \
             Oracle: value reported by the compiled program identifies the binding used; definition_at at every byte of the use must return that binding's range, file and text; type_at must be `int`; \
             additionally the binding used by the run must be the innermost one of the model. Uses of the uniquely declared names us / fn1 / lamN must resolve to their only declaration. \
             B: depth <= 1 one-name programs again behind a first-line comment with 1 or 3 non-ASCII characters. \
             C: {} types x {} binding contexts, type_at on the use (and on the first byte of literal/tuple/array expressions) compared with the documented type syntax modulo white space and a leading `fn`. \
             M: {} programs in which struct fields (patterns in match arms and lets and constructor arguments with the named fields written in every order, reads, writes), enum variants (qualified / unqualified expressions and patterns, named variant fields), \
             function parameters (named arguments in every order), functions and member functions are used next to locals of the same names; the run must show that the compiler binds by name, and definition_at at every byte of every marked use must return a range that starts at the marked declaration identifier and covers it; plus {} programs in which type_at on a USE of a generic function must show the instantiated type of that use. \
             Non-trivial: programs of A/B in which an observed use has a name with >= 2 bindings, and every C program.",
            fams.iter().filter(|f| f.names == 2 && f.kinds.len() == 2).map(|f| f.alphabet.len()).max().unwrap_or(0),
            TYPES.len(),
            CONTEXTS.len(),
            member_programs().len(),
            generic_hover_programs().len()
        )
    }
    fn assumptions(&self) -> Vec<String> {
        vec![
            "offsets given to and ranges returned by definition_at/type_at are byte offsets into the file (as the repository's lsp tests slice the source with them)".into(),
            "a function scope can only be the first nested scope (functions are top-level items) and cannot see top-level lets".into(),
            "type display: only forms that coincide with the documented type syntax are asserted; `fn(A) -> B` is accepted for the documented `(A) -> B`".into(),
        ]
    }
}

fn lsp(src: &Src) -> Result<abra_core::LspAnalysisResult, drive::PanicInfo> {
    abra_core::verif::reset_counters(1);
    drive::catch(|| abra_core::check_lsp(&src.main, src.provider()))
}

fn run_shadow(out: &mut UnitOut, fam: &Family, case_text: &str, g: &Gen, idx: u64) {
    let key0 = format!("input:{}", hkey(case_text));
    let mut extra_keys: Vec<String> = vec![];
    if fam.nonascii > 0 {
        extra_keys.push("stratum:nonascii-above".into());
    }
    let src = Src::with_vh(&g.text);
    let binding_desc =
        |b: &Binding| format!("{} `{}` bytes {}..{} (const {})", b.how, b.name, b.lo, b.hi, b.konst);
    // 1. behaviour: which binding does each use denote in the compiled program
    let prog = match drive::compile(&src, COpts::default()) {
        Compiled::Ok(p) => p,
        Compiled::Diag(dg) => {
            out.class("violation:rejected");
            let mut keys = vec![key0];
            keys.extend(extra_keys);
            out.violation(keys, format!("{case_text}: generated program rejected"), json!({"case": case_text, "program": g.text, "diagnostics": dg}));
            return;
        }
        Compiled::Panic(p) => {
            out.class("violation:compiler-panic");
            let mut keys = vec![key0, p.site_key()];
            keys.extend(extra_keys);
            out.violation(
                keys,
                format!("{case_text}: compiler panic at {}: {}", p.site, p.msg),
                json!({"case": case_text, "program": g.text, "panic": p.msg, "site": p.site}),
            );
            return;
        }
    };
    let r = drive::run(&prog, &src.host_table(), StdHost::default(), ROpts::default());
    if r.end != End::Done {
        out.class("violation:run-failed");
        let mut keys = vec![key0];
        if let End::Fault(p) = &r.end {
            keys.push(p.site_key());
        }
        keys.extend(extra_keys);
        out.violation(
            keys,
            format!("{case_text}: program did not run to completion: {}", crate::batch::short_end(&r.end)),
            json!({"case": case_text, "program": g.text, "observed": format!("{:?}", r.end)}),
        );
        return;
    }
    let mut seen: HashMap<i64, i64> = HashMap::new();
    let ints: Vec<i64> = r.host.emits.iter().filter_map(|e| if let Emit::Int(v) = e { Some(*v) } else { None }).collect();
    for ch in ints.chunks(2) {
        if ch.len() == 2 {
            seen.insert(ch[0], ch[1]);
        }
    }
    // 2. the analysis
    let a = match lsp(&src) {
        Ok(a) => a,
        Err(p) => {
            out.class("violation:check_lsp-panic");
            let mut keys = vec![key0, p.site_key()];
            keys.extend(extra_keys);
            out.violation(keys, format!("{case_text}: check_lsp panicked at {}: {}", p.site, p.msg), json!({"case": case_text, "program": g.text}));
            return;
        }
    };
    let fid = main_file_id(&a);
    let mut problems: Vec<String> = vec![];
    let mut scoping: Vec<String> = vec![];
    let mut n_queries = 0;
    for u in &g.uses {
        let used: usize = if u.observed {
            match seen.get(&u.uid).and_then(|v| g.bindings.iter().position(|b| b.konst == *v)) {
                Some(b) => b,
                None => {
                    problems.push(format!("use #{} of `{}` at {}..{}: the run reported {:?}, which is no binding's constant", u.uid, u.name, u.lo, u.hi, seen.get(&u.uid)));
                    continue;
                }
            }
        } else {
            u.model
        };
        if used != u.model {
            scoping.push(format!(
                "use #{} of `{}` at bytes {}..{}: compiled program used [{}], innermost binding in scope is [{}]",
                u.uid,
                u.name,
                u.lo,
                u.hi,
                binding_desc(&g.bindings[used]),
                binding_desc(&g.bindings[u.model])
            ));
        }
        let b = &g.bindings[used];
        for off in u.lo..u.hi {
            n_queries += 1;
            let d = drive::catch(|| a.definition_at(fid, off));
            match d {
                Err(p) => problems.push(format!("definition_at({off}) panicked at {}: {}", p.site, p.msg)),
                Ok(None) => problems.push(format!("definition_at({off}) on use of `{}` ({}..{}) returned nothing; expected [{}]", u.name, u.lo, u.hi, binding_desc(b))),
                Ok(Some(di)) => {
                    let txt = g.text.get(di.range.clone()).unwrap_or("<range not on char boundaries / out of file>");
                    if di.file_id != fid || di.range != (b.lo..b.hi) || txt != u.name {
                        problems.push(format!(
                            "definition_at({off}) on use of `{}` ({}..{}) returned file {} range {:?} text {:?}; expected file {} range {}..{} = [{}]",
                            u.name, u.lo, u.hi, di.file_id, di.range, txt, fid, b.lo, b.hi, binding_desc(b)
                        ));
                    }
                }
            }
            if u.observed {
                match drive::catch(|| a.type_at(fid, off)) {
                    Err(p) => problems.push(format!("type_at({off}) panicked at {}: {}", p.site, p.msg)),
                    Ok(t) => {
                        if t.as_deref() != Some("int") {
                            problems.push(format!("type_at({off}) on use of int variable `{}` returned {:?}", u.name, t));
                        }
                    }
                }
            }
        }
    }
    out.count("lsp_queries", n_queries);
    out.count("uses_checked", g.uses.len() as i64);
    if idx % 409 == 0 {
        out.sample(json!({"case": case_text, "program": g.text, "uses": g.uses.iter().filter(|u| u.observed).map(|u| format!("#{} {}@{} -> binding const {}", u.uid, u.name, u.lo, g.bindings[u.model].konst)).collect::<Vec<_>>()}));
    }
    let bindings_json: Vec<String> = g.bindings.iter().map(binding_desc).collect();
    let mut any = false;
    if !problems.is_empty() {
        any = true;
        let mut keys = vec![key0.clone()];
        keys.extend(extra_keys.clone());
        let cls = if fam.nonascii > 0 { "violation:lsp-disagrees(nonascii stratum)" } else { "violation:lsp-disagrees" };
        out.class(cls);
        out.violation(
            keys,
            format!("{case_text}: {} LSP answers disagree with the compiled program; first: {}", problems.len(), problems[0]),
            json!({"case": case_text, "program": g.text, "bindings": bindings_json, "problems": problems}),
        );
    }
    if !scoping.is_empty() {
        any = true;
        let for_leak = g.text.contains("for ");
        let mut keys = vec![format!("input:{}", hkey(&format!("{case_text} [scoping]")))];
        if for_leak {
            keys.push("cause:compiler-binding-not-innermost(for)".into());
        } else {
            keys.push("cause:compiler-binding-not-innermost".into());
        }
        keys.extend(extra_keys);
        out.class("violation:compiler-binding-not-innermost");
        out.violation(
            keys,
            format!("{case_text}: compiled program does not use the innermost binding in scope; first: {}", scoping[0]),
            json!({"case": case_text, "program": g.text, "bindings": bindings_json, "problems": scoping}),
        );
    }
    if !any {
        let maxb = NAMES.iter().map(|n| g.bindings.iter().filter(|b| b.name == *n).count()).max().unwrap_or(0);
        out.class(&format!("agree:max-bindings-per-name={maxb}"));
    }
}

// ---------------------------------------------------------------- family M: field / variant / parameter / function names

/// A program written with markers: `«d:KEY»name` marks the declaration identifier of KEY, `«u:KEY»name` a use that must
/// resolve to it. Returns (text without markers, declarations KEY -> (lo, hi), uses (KEY, lo, hi)).
fn strip_markers(marked: &str) -> (String, HashMap<String, (usize, usize)>, Vec<(String, usize, usize)>) {
    let mut text = String::new();
    let mut decls = HashMap::new();
    let mut uses = vec![];
    let mut rest = marked;
    while let Some(i) = rest.find('«') {
        text.push_str(&rest[..i]);
        let j = rest.find('»').expect("marker closed");
        let tag = &rest[i + '«'.len_utf8()..j];
        rest = &rest[j + '»'.len_utf8()..];
        let n = rest.bytes().take_while(|c| c.is_ascii_alphanumeric() || *c == b'_').count();
        let (kind, key) = tag.split_once(':').expect("marker kind:key");
        let (lo, hi) = (text.len(), text.len() + n);
        if kind == "d" {
            decls.insert(key.to_string(), (lo, hi));
        } else {
            uses.push((key.to_string(), lo, hi));
        }
    }
    text.push_str(rest);
    (text, decls, uses)
}

/// (case name, marked program, expected emits)
fn member_programs() -> Vec<(String, String, Vec<i64>)> {
    let mut v = vec![];
    let perms: [[usize; 3]; 6] = [[0, 1, 2], [0, 2, 1], [1, 0, 2], [1, 2, 0], [2, 0, 1], [2, 1, 0]];
    let f = ["px", "py", "pz"];
    let struct_decl = "type Vec3 = {\n  «d:px»px: int\n  «d:py»py: int\n  «d:pz»pz: int\n}\n";
    for perm in perms {
        let order = perm.map(|k| f[k]).join(", ");
        // named-field struct pattern in a match arm and in a let; the sub-patterns are variables named like OTHER fields' locals
        let pat: Vec<String> = perm.iter().map(|&k| format!("«u:{}»{} = v{}", f[k], f[k], k)).collect();
        v.push((
            format!("struct pattern in a match arm, fields written in order ({order})"),
            format!("{struct_decl}let p = Vec3(10, 20, 30)\nmatch p {{\n  Vec3({}) -> {{\n    vh_emit_int(v0)\n    vh_emit_int(v1)\n    vh_emit_int(v2)\n  }}\n}}\n", pat.join(", ")),
            vec![10, 20, 30],
        ));
        v.push((
            format!("struct pattern in a let, fields written in order ({order})"),
            format!("{struct_decl}let p = Vec3(10, 20, 30)\nlet Vec3({}) = p\nvh_emit_int(v0)\nvh_emit_int(v1)\nvh_emit_int(v2)\n", pat.join(", ")),
            vec![10, 20, 30],
        ));
        let args: Vec<String> = perm.iter().map(|&k| format!("«u:{}»{} = {}", f[k], f[k], (k + 1) * 10)).collect();
        v.push((
            format!("constructor with named arguments in order ({order}), then field reads and a field write"),
            format!(
                "{struct_decl}let p = Vec3({})\nvh_emit_int(p.«u:px»px)\nvh_emit_int(p.«u:py»py)\nvh_emit_int(p.«u:pz»pz)\np.«u:py»py = 21\nvh_emit_int(p.«u:py»py)\n",
                args.join(", ")
            ),
            vec![10, 20, 30, 21],
        ));
        let fargs: Vec<String> = perm.iter().map(|&k| format!("«u:{}»{} = {}", ["qa", "qb", "qc"][k], ["qa", "qb", "qc"][k], (k + 1) * 10)).collect();
        v.push((
            format!("function call with named arguments in order ({})", perm.map(|k| ["qa", "qb", "qc"][k]).join(", ")),
            format!(
                "fn «d:f3»f3(«d:qa»qa: int, «d:qb»qb: int, «d:qc»qc: int) -> int {{\n  «u:qa»qa * 100 + «u:qb»qb * 10 + «u:qc»qc\n}}\nvh_emit_int(«u:f3»f3({}))\n",
                fargs.join(", ")
            ),
            vec![1230],
        ));
    }
    // locals named like fields next to field uses
    v.push((
        "locals named like the fields, next to field names in a pattern and in accesses".into(),
        format!(
            "{struct_decl}let «d:lpx»px = 1\nlet «d:lpy»py = 2\nlet p = Vec3(«u:lpx»px, «u:lpy»py, 3)\nmatch p {{\n  Vec3(«u:pz»pz = c, «u:px»px = a, «u:py»py = b) -> {{\n    vh_emit_int(a + «u:lpx»px)\n    vh_emit_int(b + «u:lpy»py)\n    vh_emit_int(c)\n  }}\n}}\nvh_emit_int(p.«u:px»px + «u:lpx»px)\n"
        ),
        vec![2, 4, 3, 2],
    ));
    // enum variants: qualified / unqualified expressions and patterns, named variant fields
    v.push((
        "enum variants in expressions and patterns, qualified and unqualified".into(),
        "type «d:Co»Co = «d:Red»Red | «d:Green»Green(int) | «d:Blue»Blue(«d:br»r: int, «d:bg»g: int)\n\
         fn rk(c: «u:Co»Co) -> int {\n  match c {\n    .«u:Red»Red -> 1\n    «u:Co»Co.«u:Green»Green(n) -> 2 + n\n    .«u:Blue»Blue(r, g) -> r * 10 + g\n  }\n}\n\
         vh_emit_int(rk(«u:Co»Co.«u:Red»Red))\nvh_emit_int(rk(.«u:Green»Green(5)))\nvh_emit_int(rk(«u:Co»Co.«u:Blue»Blue(«u:bg»g = 4, «u:br»r = 3)))\nlet c2: «u:Co»Co = .«u:Blue»Blue(1, 2)\nvh_emit_int(rk(c2))\n"
            .into(),
        vec![1, 7, 34, 12],
    ));
    // member functions and functions sharing a name with a field
    v.push((
        "member functions, type-qualified member call, a function named like a field".into(),
        format!(
            "{struct_decl}extend Vec3 {{\n  fn «d:sum»sum(self) -> int = self.«u:px»px + self.«u:py»py + self.«u:pz»pz\n  fn «d:scaled»scaled(self, «d:k»k: int) -> int = self.«u:sum»sum() * «u:k»k\n}}\nfn «d:fpx»pxf(v: Vec3) -> int = v.«u:px»px\nlet p = Vec3(1, 2, 3)\nvh_emit_int(p.«u:sum»sum())\nvh_emit_int(p.«u:scaled»scaled(2))\nvh_emit_int(Vec3.«u:sum»sum(p))\nvh_emit_int(«u:fpx»pxf(p))\nvh_emit_int(p.«u:scaled»scaled(«u:k»k = 3))\n"
        ),
        vec![6, 12, 6, 1, 18],
    ));
    v
}

/// Hover on a USE of a generic function shows the type the checker inferred for that use (the instantiation), not
/// the declared signature. (case name, program with one `«q»` marker in front of the queried identifier, expected type)
fn generic_hover_programs() -> Vec<(String, String, String)> {
    let d = "fn ident(x: T) -> T = x\nfn twice(f: T -> T, x: T) -> T = f(f(x))\nfn inc(n: int) -> int = n + 1\nfn pairup(a: T, b: U) -> (U, T) = (b, a)\n";
    let mut v = vec![];
    let mut add = |name: &str, body: &str, ty: &str| v.push((name.to_string(), format!("{d}{body}\n"), ty.to_string()));
    add("ident at int", "let a = «q»ident(3)", "fn(int) -> int");
    add("ident at string", "let a = «q»ident(\"s\")", "fn(string) -> string");
    add("ident at bool, second use after an int use", "let z = ident(1)\nlet a = «q»ident(true)", "fn(bool) -> bool");
    add("ident inside a lambda", "let g = (x: int) -> «q»ident(x)", "fn(int) -> int");
    add("twice at int", "let a = «q»twice(inc, 4)", "fn(fn(int) -> int, int) -> int");
    add("pairup at (int, string)", "let a = «q»pairup(1, \"s\")", "fn(int, string) -> (string, int)");
    add("a monomorphic function", "let a = «q»inc(3)", "fn(int) -> int");
    v
}

fn run_generic_hover(out: &mut UnitOut, first_idx: u64) {
    for (k, (name, marked, ty)) in generic_hover_programs().into_iter().enumerate() {
        if !out.begin_case(first_idx + k as u64) {
            continue;
        }
        let at = marked.find('«').expect("marker");
        let text = marked.replace("«q»", "");
        let n = text[at..].bytes().take_while(|c| c.is_ascii_alphanumeric() || *c == b'_').count();
        let case_text = format!("C35 hover on a use of a generic function: {name}");
        out.describe_case(&format!("{case_text}\n{text}"));
        out.evaluations += 1;
        out.nontrivial_text(&case_text);
        let key0 = format!("input:{}", hkey(&case_text));
        let src = Src::single(&text);
        if !matches!(drive::check(&src, 1), drive::Checked::Ok) {
            out.class("violation:rejected");
            out.violation(vec![key0], format!("{case_text}: program rejected"), json!({"case": case_text, "program": text}));
            continue;
        }
        let a = match lsp(&src) {
            Ok(a) => a,
            Err(p) => {
                out.class("violation:check_lsp-panic");
                out.violation(vec![key0, p.site_key()], format!("{case_text}: check_lsp panicked at {}: {}", p.site, p.msg), json!({"case": case_text, "program": text}));
                continue;
            }
        };
        let fid = main_file_id(&a);
        let mut problems = vec![];
        for off in at..at + n {
            out.count("lsp_queries", 1);
            match drive::catch(|| a.type_at(fid, off)) {
                Err(p) => problems.push(format!("type_at({off}) panicked at {}: {}", p.site, p.msg)),
                Ok(got) => {
                    if got.as_deref().map(norm_ty) != Some(norm_ty(&ty)) {
                        problems.push(format!("type_at({off}) on `{}` returned {:?}, the checker inferred `{ty}` for this use", &text[at..at + n], got));
                    }
                }
            }
        }
        if problems.is_empty() {
            out.class("hover-agrees:generic-use");
        } else {
            out.class("violation:hover-disagrees");
            out.violation(vec![key0], format!("{case_text}: {}", problems[0]), json!({"case": case_text, "program": text, "problems": problems}));
        }
    }
}

fn run_members(out: &mut UnitOut) {
    run_generic_hover(out, 1000);
    for (idx, (name, marked, want)) in member_programs().into_iter().enumerate() {
        if !out.begin_case(idx as u64) {
            continue;
        }
        let (text0, decls, uses) = strip_markers(&marked);
        let text = format!("use vh\n{text0}");
        let shift = "use vh\n".len();
        let case_text = format!("C35 members: {name}");
        out.describe_case(&format!("{case_text}\n{text}"));
        out.evaluations += 1;
        out.nontrivial_text(&case_text);
        let key0 = format!("input:{}", hkey(&case_text));
        let src = Src::with_vh(&text);
        // behaviour first: the program must be accepted and bind / dispatch by NAME (the declaration the compiler uses)
        let r = match drive::compile(&src, COpts::default()) {
            Compiled::Ok(p) => drive::run(&p, &src.host_table(), StdHost::default(), ROpts::default()),
            Compiled::Diag(dg) => {
                out.class("violation:rejected");
                out.violation(vec![key0], format!("{case_text}: program rejected"), json!({"case": case_text, "program": text, "diagnostics": dg}));
                continue;
            }
            Compiled::Panic(p) => {
                out.class("violation:compiler-panic");
                out.violation(vec![key0, p.site_key()], format!("{case_text}: compiler panic at {}: {}", p.site, p.msg), json!({"case": case_text, "program": text}));
                continue;
            }
        };
        let got: Vec<i64> = r.host.emits.iter().filter_map(|e| if let Emit::Int(v) = e { Some(*v) } else { None }).collect();
        if r.end != End::Done || got != want {
            out.class("violation:behaviour");
            out.violation(
                vec![key0],
                format!("{case_text}: the compiled program does not use the named declarations: expected emits {want:?}, observed end={} emits={got:?}", crate::batch::short_end(&r.end)),
                json!({"case": case_text, "program": text, "expected": format!("{want:?}"), "observed": format!("{got:?}")}),
            );
            continue;
        }
        let a = match lsp(&src) {
            Ok(a) => a,
            Err(p) => {
                out.class("violation:check_lsp-panic");
                out.violation(vec![key0, p.site_key()], format!("{case_text}: check_lsp panicked at {}: {}", p.site, p.msg), json!({"case": case_text, "program": text}));
                continue;
            }
        };
        let fid = main_file_id(&a);
        let mut problems = vec![];
        let mut unanswered = 0;
        for (key, lo, hi) in &uses {
            let (dlo, dhi) = decls[key];
            let (lo, hi, dlo, dhi) = (lo + shift, hi + shift, dlo + shift, dhi + shift);
            let uname = &text[lo..hi];
            for off in lo..hi {
                out.count("lsp_queries", 1);
                match drive::catch(|| a.definition_at(fid, off)) {
                    Err(p) => problems.push(format!("definition_at({off}) on `{uname}` panicked at {}: {}", p.site, p.msg)),
                    Ok(None) => unanswered += 1,
                    Ok(Some(d)) => {
                        let got_text = if d.file_id == fid && d.range.end <= text.len() && text.is_char_boundary(d.range.start) && text.is_char_boundary(d.range.end) { &text[d.range.start..d.range.end] } else { "<other file or malformed range>" };
                        // the returned range is the declaration: it starts at the declared identifier (it may extend over
                        // the rest of the declaration, e.g. a variant's payload `Green(int)`)
                        if d.file_id != fid || d.range.start != dlo || d.range.end < dhi {
                            problems.push(format!(
                                "definition_at({off}) on the use `{uname}` (declaration `{}` at bytes {dlo}..{dhi}) returned bytes {}..{} = `{got_text}`",
                                &text[dlo..dhi], d.range.start, d.range.end
                            ));
                        }
                    }
                }
            }
        }
        out.count("member_queries_without_answer", unanswered);
        if problems.is_empty() {
            out.class(if unanswered == 0 { "members-agree" } else { "members-agree (some queries unanswered)" });
            out.sample(json!({"case": case_text, "program": text, "uses": uses.len(), "unanswered_queries": unanswered}));
        } else {
            out.class("violation:definition-disagrees");
            out.violation(
                vec![key0],
                format!("{case_text}: {} go-to-definition answers name another declaration; first: {}", problems.len(), problems[0]),
                json!({"case": case_text, "program": text, "problems": problems}),
            );
        }
    }
}

fn run_hover(out: &mut UnitOut) {
    let mut idx = 0u64;
    for t in &TYPES {
        for c in 0..CONTEXTS.len() {
            let Some(h) = hover_prog(t, c) else { continue };
            let my = idx;
            idx += 1;
            if !out.begin_case(my) {
                continue;
            }
            let case_text = format!("C35 hover type `{}` context {}", t.ty, CONTEXTS[c]);
            out.describe_case(&format!("{case_text}\n{}", h.text));
            out.evaluations += 1;
            out.nontrivial_text(&case_text);
            let key0 = format!("input:{}", hkey(&case_text));
            let src = Src::single(&h.text);
            // the program must be accepted by the real checker, otherwise the expectation is void
            match drive::check(&src, 1) {
                drive::Checked::Ok => {}
                drive::Checked::Diag(dg) => {
                    out.class("violation:rejected");
                    out.violation(vec![key0], format!("{case_text}: hover program rejected"), json!({"case": case_text, "program": h.text, "diagnostics": dg}));
                    continue;
                }
                drive::Checked::Panic(p) => {
                    out.class("violation:compiler-panic");
                    out.violation(vec![key0, p.site_key()], format!("{case_text}: checker panicked at {}: {}", p.site, p.msg), json!({"case": case_text, "program": h.text}));
                    continue;
                }
            }
            let a = match lsp(&src) {
                Ok(a) => a,
                Err(p) => {
                    out.class("violation:check_lsp-panic");
                    out.violation(vec![key0, p.site_key()], format!("{case_text}: check_lsp panicked at {}: {}", p.site, p.msg), json!({"case": case_text, "program": h.text}));
                    continue;
                }
            };
            let fid = main_file_id(&a);
            let mut problems = vec![];
            for (lo, hi, ty, what) in &h.queries {
                for off in *lo..*hi {
                    out.count("lsp_queries", 1);
                    match drive::catch(|| a.type_at(fid, off)) {
                        Err(p) => problems.push(format!("type_at({off}) panicked at {}: {}", p.site, p.msg)),
                        Ok(got) => {
                            let ok = got.as_deref().map(norm_ty) == Some(norm_ty(ty));
                            if !ok {
                                problems.push(format!("type_at({off}) [{what}] returned {:?}, expected `{ty}`", got));
                            }
                        }
                    }
                }
            }
            if problems.is_empty() {
                out.class(&format!("hover-agrees:{}", CONTEXTS[c]));
                if my % 17 == 0 {
                    out.sample(json!({"case": case_text, "program": h.text, "queries": h.queries.iter().map(|q| format!("{}..{} -> {}", q.0, q.1, q.2)).collect::<Vec<_>>()}));
                }
            } else {
                out.class("violation:hover-disagrees");
                out.violation(
                    vec![key0],
                    format!("{case_text}: {} hover answers disagree; first: {}", problems.len(), problems[0]),
                    json!({"case": case_text, "program": h.text, "problems": problems}),
                );
            }
        }
    }
}
