//! C28 — values are rendered as text exactly as documented.
//!
//! Universe: every value of every nested built-in type up to depth 3 (leaf = depth 1) over
//! {int, bool, void, string, array, tuple of arity 2–4, option, result}, organised in strata
//! (see `STRATA`); each value is rendered through `v .. ""`, `"" .. v`, `v .. v`, `v.str()`,
//! `ToString.str(v)`, `print(v)` and `println(v)` in one case and compared with a model printer
//! written from the property statement. The rendering of an *empty* array is not fixed by the
//! statement or the manual: any `[` + spaces + `]`, used consistently, is accepted.

use crate::batch::{Case, CaseResult, run_cases};
use crate::drive::{COpts, Emit, End, Input, ROpts};
use crate::fw::{Prop, Tier, UnitOut, hkey};
use serde_json::json;

pub struct C28;

#[derive(Clone, Debug, PartialEq)]
pub enum T {
    Int,
    Bool,
    Void,
    Str,
    Arr(Box<T>),
    Tup(Vec<T>),
    Opt(Box<T>),
    Res(Box<T>, Box<T>),
}

#[derive(Clone, Debug, PartialEq)]
pub enum Val {
    Int(i64),
    Bool(bool),
    Nil,
    Str(String),
    Arr(Vec<Val>),
    Tup(Vec<Val>),
    Some(Box<Val>),
    None,
    Ok(Box<Val>),
    Err(Box<Val>),
}

#[derive(Clone, Copy, PartialEq, Debug)]
enum Leaves {
    /// 0, -7, MAX; true, false; nil; "s", ""
    Full,
    /// -7; true; nil; "s"
    Small,
}

impl T {
    pub fn src(&self) -> String {
        match self {
            T::Int => "int".into(),
            T::Bool => "bool".into(),
            T::Void => "void".into(),
            T::Str => "string".into(),
            T::Arr(t) => format!("array<{}>", t.src()),
            T::Tup(ts) => format!("({})", ts.iter().map(|t| t.src()).collect::<Vec<_>>().join(", ")),
            T::Opt(t) => format!("option<{}>", t.src()),
            T::Res(a, b) => format!("result<{}, {}>", a.src(), b.src()),
        }
    }
    /// closed-form number of values of this type (arrays of length 0..=2)
    fn count(&self, l: Leaves) -> u64 {
        match self {
            T::Int => if l == Leaves::Full { 4 } else { 1 },
            T::Bool => if l == Leaves::Full { 2 } else { 1 },
            T::Void => 1,
            T::Str => if l == Leaves::Full { 3 } else { 1 },
            T::Arr(t) => {
                let n = t.count(l);
                1 + n + n * n
            }
            T::Tup(ts) => ts.iter().map(|t| t.count(l)).product(),
            T::Opt(t) => t.count(l) + 1,
            T::Res(a, b) => a.count(l) + b.count(l),
        }
    }
    fn values(&self, l: Leaves) -> Vec<Val> {
        match self {
            T::Int => {
                if l == Leaves::Full {
                    vec![Val::Int(0), Val::Int(-7), Val::Int(i64::MAX), Val::Int(i64::MIN)]
                } else {
                    vec![Val::Int(-7)]
                }
            }
            T::Bool => {
                if l == Leaves::Full {
                    vec![Val::Bool(true), Val::Bool(false)]
                } else {
                    vec![Val::Bool(true)]
                }
            }
            T::Void => vec![Val::Nil],
            T::Str => {
                if l == Leaves::Full {
                    vec![Val::Str("s".into()), Val::Str("".into()), Val::Str("é中".into())]
                } else {
                    // ASCII and multi-byte characters: the text passes byte-wise through `..`
                    vec![Val::Str("sé".into())]
                }
            }
            T::Arr(t) => {
                let e = t.values(l);
                let mut v = vec![Val::Arr(vec![])];
                for a in &e {
                    v.push(Val::Arr(vec![a.clone()]));
                }
                for a in &e {
                    for b in &e {
                        v.push(Val::Arr(vec![a.clone(), b.clone()]));
                    }
                }
                v
            }
            T::Tup(ts) => {
                let mut out: Vec<Vec<Val>> = vec![vec![]];
                for t in ts {
                    let vs = t.values(l);
                    let mut next = vec![];
                    for pre in &out {
                        for a in &vs {
                            let mut p = pre.clone();
                            p.push(a.clone());
                            next.push(p);
                        }
                    }
                    out = next;
                }
                out.into_iter().map(Val::Tup).collect()
            }
            T::Opt(t) => {
                let mut v: Vec<Val> = t.values(l).into_iter().map(|x| Val::Some(Box::new(x))).collect();
                v.push(Val::None);
                v
            }
            T::Res(a, b) => {
                let mut v: Vec<Val> = a.values(l).into_iter().map(|x| Val::Ok(Box::new(x))).collect();
                v.extend(b.values(l).into_iter().map(|x| Val::Err(Box::new(x))));
                v
            }
        }
    }
}

// ------------------------------------------------------------------ model printer

#[derive(Clone, Debug, PartialEq)]
pub enum Piece {
    Text(String),
    /// rendering of an empty array: unspecified
    EmptyArr,
}

fn push_text(out: &mut Vec<Piece>, s: &str) {
    if let Some(Piece::Text(t)) = out.last_mut() {
        t.push_str(s);
    } else {
        out.push(Piece::Text(s.to_string()));
    }
}

/// The documented rendering: ints decimal, `true`/`false`, `nil`, strings verbatim, `[ a, b ]`,
/// `(a, b)`, `some(x)`/`none`, `ok(x)`/`err(e)`, recursively.
pub fn render(v: &Val, out: &mut Vec<Piece>) {
    match v {
        Val::Int(i) => push_text(out, &i.to_string()),
        Val::Bool(b) => push_text(out, if *b { "true" } else { "false" }),
        Val::Nil => push_text(out, "nil"),
        Val::Str(s) => push_text(out, s),
        Val::Arr(vs) => {
            if vs.is_empty() {
                out.push(Piece::EmptyArr);
            } else {
                push_text(out, "[ ");
                for (i, x) in vs.iter().enumerate() {
                    if i > 0 {
                        push_text(out, ", ");
                    }
                    render(x, out);
                }
                push_text(out, " ]");
            }
        }
        Val::Tup(vs) => {
            push_text(out, "(");
            for (i, x) in vs.iter().enumerate() {
                if i > 0 {
                    push_text(out, ", ");
                }
                render(x, out);
            }
            push_text(out, ")");
        }
        Val::Some(x) => {
            push_text(out, "some(");
            render(x, out);
            push_text(out, ")");
        }
        Val::None => push_text(out, "none"),
        Val::Ok(x) => {
            push_text(out, "ok(");
            render(x, out);
            push_text(out, ")");
        }
        Val::Err(x) => {
            push_text(out, "err(");
            render(x, out);
            push_text(out, ")");
        }
    }
}

/// Match `obs` against the template; `e` is the empty-array text fixed so far (None = not yet seen).
fn match_template(pieces: &[Piece], obs: &str, e: &mut Option<String>) -> bool {
    let k = pieces.iter().filter(|p| **p == Piece::EmptyArr).count();
    let fixed: usize = pieces.iter().map(|p| if let Piece::Text(t) = p { t.len() } else { 0 }).sum();
    if k == 0 {
        return pieces.iter().map(|p| if let Piece::Text(t) = p { t.as_str() } else { "" }).collect::<String>() == obs;
    }
    if obs.len() < fixed || (obs.len() - fixed) % k != 0 {
        return false;
    }
    let el = (obs.len() - fixed) / k;
    let b = obs.as_bytes();
    let mut pos = 0;
    for p in pieces {
        match p {
            Piece::Text(t) => {
                if pos + t.len() > b.len() || &b[pos..pos + t.len()] != t.as_bytes() {
                    return false;
                }
                pos += t.len();
            }
            Piece::EmptyArr => {
                let Some(got) = obs.get(pos..pos + el) else { return false };
                let ok_shape = got.len() >= 2 && got.starts_with('[') && got.ends_with(']') && got[1..got.len() - 1].chars().all(|c| c == ' ');
                if !ok_shape {
                    return false;
                }
                match e {
                    Some(prev) => {
                        if prev != got {
                            return false;
                        }
                    }
                    None => *e = Some(got.to_string()),
                }
                pos += el;
            }
        }
    }
    pos == b.len()
}

fn concrete(pieces: &[Piece], e: &str) -> String {
    pieces.iter().map(|p| if let Piece::Text(t) = p { t.as_str() } else { e }).collect()
}

// ------------------------------------------------------------------ strata

fn d1() -> Vec<T> {
    vec![T::Int, T::Bool, T::Void, T::Str]
}
fn tuples(k: usize, comps: &[T]) -> Vec<T> {
    let mut out: Vec<Vec<T>> = vec![vec![]];
    for _ in 0..k {
        let mut next = vec![];
        for pre in &out {
            for c in comps {
                let mut p = pre.clone();
                p.push(c.clone());
                next.push(p);
            }
        }
        out = next;
    }
    out.into_iter().map(T::Tup).collect()
}
/// depth-2 types: array / option / result / tuples of the given arities over the leaf types
fn d2(arities: &[usize]) -> Vec<T> {
    let l = d1();
    let mut v = vec![];
    for t in &l {
        v.push(T::Arr(Box::new(t.clone())));
    }
    for t in &l {
        v.push(T::Opt(Box::new(t.clone())));
    }
    for t in &l {
        for u in &l {
            v.push(T::Res(Box::new(t.clone()), Box::new(u.clone())));
        }
    }
    for k in arities {
        v.extend(tuples(*k, &l));
    }
    v
}

const STRATA: [&str; 13] = [
    "depth 1: leaves",
    "depth 2: array/option/result/2-tuple over leaves",
    "depth 2: 3-tuples over leaves",
    "depth 2: 4-tuples over leaves",
    "depth 3: arrays of depth-2 values",
    "depth 3: options of depth-2 values",
    "depth 3: results with one depth-2 side",
    "depth 3: results with two depth-2 sides",
    "depth 3: 2-tuples with one depth-2 component",
    "depth 3: 2-tuples with two depth-2 components",
    "depth 3: 3-tuples with one depth-2 component",
    "depth 3: 4-tuples with one depth-2 component",
    "depth 1-2 again with literal leaves instead of host-fed leaves",
];

/// (types, leaf set, literal leaves) of a stratum; empty type list = stratum not part of the tier
fn stratum(tier: Tier, s: usize) -> (Vec<T>, Leaves, bool) {
    let wide: &[usize] = tier.pick(&[2][..], &[2, 3, 4][..]);
    let l = d1();
    let thorough = tier == Tier::Thorough;
    let one_sided = |mk: &dyn Fn(T, T) -> T| {
        let mut v = vec![];
        for t2 in d2(wide) {
            for u in &l {
                v.push(mk(t2.clone(), u.clone()));
                v.push(mk(u.clone(), t2.clone()));
            }
        }
        v
    };
    let two_sided = |mk: &dyn Fn(T, T) -> T| {
        let mut v = vec![];
        if thorough {
            for t in d2(&[2]) {
                for u in d2(&[2]) {
                    v.push(mk(t.clone(), u.clone()));
                }
            }
        }
        v
    };
    let one_in_tuple = |k: usize| {
        let mut v = vec![];
        if thorough {
            for pos in 0..k {
                for t2 in d2(&[2]) {
                    for rest in tuples(k - 1, &l) {
                        let T::Tup(mut comps) = rest else { unreachable!() };
                        comps.insert(pos, t2.clone());
                        v.push(T::Tup(comps));
                    }
                }
            }
        }
        v
    };
    let full_or_small = tier.pick(Leaves::Small, Leaves::Full);
    match s {
        0 => (l.clone(), Leaves::Full, false),
        1 => (d2(&[2]), Leaves::Full, false),
        2 => (tuples(3, &l), full_or_small, false),
        3 => (tuples(4, &l), full_or_small, false),
        4 => (d2(wide).into_iter().map(|t| T::Arr(Box::new(t))).collect(), Leaves::Small, false),
        5 => (d2(wide).into_iter().map(|t| T::Opt(Box::new(t))).collect(), Leaves::Small, false),
        6 => (one_sided(&|a, b| T::Res(Box::new(a), Box::new(b))), Leaves::Small, false),
        7 => (two_sided(&|a, b| T::Res(Box::new(a), Box::new(b))), Leaves::Small, false),
        8 => (one_sided(&|a, b| T::Tup(vec![a, b])), Leaves::Small, false),
        9 => (two_sided(&|a, b| T::Tup(vec![a, b])), Leaves::Small, false),
        10 => (one_in_tuple(3), Leaves::Small, false),
        11 => (one_in_tuple(4), Leaves::Small, false),
        _ => {
            let mut v = l.clone();
            v.extend(d2(&[2]));
            (v, Leaves::Full, true)
        }
    }
}

const CHUNK: u64 = 150;

fn stratum_count(tier: Tier, s: usize) -> u64 {
    let (ts, l, _) = stratum(tier, s);
    ts.iter().map(|t| t.count(l)).sum()
}

/// unit list: (stratum, chunk)
fn units(tier: Tier) -> Vec<(usize, u64)> {
    let mut u = vec![];
    for s in 0..STRATA.len() {
        let n = stratum_count(tier, s);
        for c in 0..n.div_ceil(CHUNK) {
            u.push((s, c));
        }
    }
    u
}

// ------------------------------------------------------------------ case construction

fn expr(v: &Val, lit: bool, p: &str, lines: &mut Vec<String>, inputs: &mut Vec<Input>, n: &mut usize) -> String {
    let fresh = |n: &mut usize| {
        *n += 1;
        format!("{p}{}", *n)
    };
    match v {
        Val::Int(i) => {
            if lit {
                format!("{i}")
            } else {
                let x = fresh(n);
                lines.push(format!("let {x} = vh_next_int()"));
                inputs.push(Input::Int(*i));
                x
            }
        }
        Val::Bool(b) => {
            if lit {
                format!("{b}")
            } else {
                let x = fresh(n);
                lines.push(format!("let {x} = vh_next_int() == 1"));
                inputs.push(Input::Int(*b as i64));
                x
            }
        }
        Val::Nil => "nil".into(),
        Val::Str(s) => {
            if lit {
                format!("\"{s}\"")
            } else {
                let x = fresh(n);
                lines.push(format!("let {x} = vh_next_str()"));
                inputs.push(Input::Str(s.clone()));
                x
            }
        }
        Val::Arr(vs) => format!("[{}]", vs.iter().map(|x| expr(x, lit, p, lines, inputs, n)).collect::<Vec<_>>().join(", ")),
        Val::Tup(vs) => format!("({})", vs.iter().map(|x| expr(x, lit, p, lines, inputs, n)).collect::<Vec<_>>().join(", ")),
        Val::Some(x) => format!("option.some({})", expr(x, lit, p, lines, inputs, n)),
        Val::None => "option.none".into(),
        Val::Ok(x) => format!("result.ok({})", expr(x, lit, p, lines, inputs, n)),
        Val::Err(x) => format!("result.err({})", expr(x, lit, p, lines, inputs, n)),
    }
}

fn show(v: &Val) -> String {
    match v {
        Val::Int(i) => format!("{i}"),
        Val::Bool(b) => format!("{b}"),
        Val::Nil => "nil".into(),
        Val::Str(s) => format!("{s:?}"),
        Val::Arr(vs) => format!("[{}]", vs.iter().map(show).collect::<Vec<_>>().join(", ")),
        Val::Tup(vs) => format!("({})", vs.iter().map(show).collect::<Vec<_>>().join(", ")),
        Val::Some(x) => format!(".some({})", show(x)),
        Val::None => ".none".into(),
        Val::Ok(x) => format!(".ok({})", show(x)),
        Val::Err(x) => format!(".err({})", show(x)),
    }
}

fn make_case(t: &T, v: &Val, lit: bool) -> Case {
    let mut lines = vec![];
    let mut inputs = vec![];
    let mut n = 0;
    let e = expr(v, lit, "lf", &mut lines, &mut inputs, &mut n);
    lines.push(format!("let vv: {} = {e}", t.src()));
    lines.push("vh_emit_str(vv .. \"\")".into());
    lines.push("vh_emit_str(\"\" .. vv)".into());
    lines.push("vh_emit_str(vv .. vv)".into());
    lines.push("vh_emit_str(vv.str())".into());
    lines.push("vh_emit_str(ToString.str(vv))".into());
    lines.push("print(vv)".into());
    lines.push("println(vv)".into());
    let name = format!("render {} = {}{}", t.src(), show(v), if lit { " [literal leaves]" } else { "" });
    let mut c = Case::new(name, lines.join("\n"));
    c.inputs = inputs;
    c
}

const ROUTES: [&str; 6] = ["v .. \"\"", "\"\" .. v", "v .. v", "v.str()", "ToString.str(v)", "print(v) then println(v)"];

fn judge(out: &mut UnitOut, c: &Case, r: &CaseResult, v: &Val) {
    let mut pieces = vec![];
    render(v, &mut pieces);
    let mut twice = pieces.clone();
    for p in &pieces {
        match p {
            Piece::Text(t) => push_text(&mut twice, t),
            Piece::EmptyArr => twice.push(Piece::EmptyArr),
        }
    }
    let mut printed = twice.clone();
    push_text(&mut printed, "\n");
    let has_empty = pieces.contains(&Piece::EmptyArr);
    let expected_text = concrete(&pieces, "<empty array: `[`, spaces, `]`>");
    let fail = |out: &mut UnitOut, observed: String, extra: Vec<String>| {
        let mut keys = vec![format!("input:{}", hkey(&c.name))];
        keys.extend(extra);
        out.class("violation");
        out.violation(
            keys,
            format!("{}: expected every route to render {:?}, observed {}", c.name, expected_text, observed),
            json!({"case": c.name, "program": c.standalone(), "inputs": format!("{:?}", c.inputs), "expected_rendering": expected_text,
                   "routes": ROUTES, "observed": observed}),
        );
    };
    let o = match r {
        CaseResult::Diag(d) => return fail(out, format!("compile diagnostics: {d}"), vec![]),
        CaseResult::CompilerPanic(p) => return fail(out, format!("compiler panic at {}: {}", p.site, p.msg), vec![p.site_key()]),
        CaseResult::Ran(o) => o,
    };
    if o.end != End::Done {
        let extra = if let End::Fault(p) = &o.end { vec![p.site_key()] } else { vec![] };
        return fail(out, format!("end={} emits={:?} out={:?}", crate::batch::short_end(&o.end), o.emits, o.out), extra);
    }
    let strs: Vec<&String> = o.emits.iter().filter_map(|e| if let Emit::Str(s) = e { Some(s) } else { None }).collect();
    if strs.len() != 5 || o.emits.len() != 5 {
        return fail(out, format!("unexpected emits {:?}", o.emits), vec![]);
    }
    let mut e: Option<String> = None;
    let mut bad = vec![];
    let templates: [&Vec<Piece>; 6] = [&pieces, &pieces, &twice, &pieces, &pieces, &printed];
    let observed: [&str; 6] = [strs[0], strs[1], strs[2], strs[3], strs[4], &o.out];
    for i in 0..6 {
        if !match_template(templates[i], observed[i], &mut e) {
            bad.push(format!("{} gave {:?}", ROUTES[i], observed[i]));
        }
    }
    if bad.is_empty() {
        if has_empty {
            out.class(&format!("as documented; empty array rendered `{}` (unspecified spacing)", e.unwrap_or_default()));
        } else {
            out.class("as documented");
        }
    } else {
        fail(out, bad.join("; "), vec![]);
    }
}

impl Prop for C28 {
    fn id(&self) -> &'static str {
        "C28"
    }
    fn level(&self) -> &'static str {
        "exploration"
    }
    fn n_units(&self, tier: Tier) -> usize {
        units(tier).len()
    }
    fn expected_evaluations(&self, tier: Tier) -> Option<u64> {
        Some((0..STRATA.len()).map(|s| stratum_count(tier, s)).sum())
    }
    fn run_unit(&self, tier: Tier, unit: usize, out: &mut UnitOut) {
        let (s, chunk) = units(tier)[unit];
        let (ts, l, lit) = stratum(tier, s);
        // enumerate only the chunk's slice: walk the types, skipping whole types by their closed-form count
        let lo = chunk * CHUNK;
        let hi = lo + CHUNK;
        let mut cases = vec![];
        let mut vals = vec![];
        let mut idx = 0u64;
        for t in &ts {
            let n = t.count(l);
            if idx + n <= lo || idx >= hi {
                idx += n;
                continue;
            }
            let vs = t.values(l);
            assert_eq!(vs.len() as u64, n, "closed-form value count of {}", t.src());
            for v in vs {
                if idx >= lo && idx < hi {
                    cases.push(make_case(t, &v, lit));
                    vals.push(v);
                }
                idx += 1;
            }
        }
        let n = cases.len().max(1);
        run_cases(out, lo, &cases, 100, COpts::default(), ROpts::default(), |out, k, c, r| {
            out.nontrivial_text(&c.name);
            if k % (n / 2 + 1) == 0 {
                out.sample(json!({"case": c.name, "body": c.body, "inputs": format!("{:?}", c.inputs)}));
            }
            judge(out, c, r, &vals[k]);
        });
    }
    fn rule(&self, tier: Tier) -> String {
        let per: Vec<String> = (0..STRATA.len())
            .map(|s| {
                let (ts, l, _) = stratum(tier, s);
                format!("{}: {} types, {} values, leaves {:?}", STRATA[s], ts.len(), stratum_count(tier, s), l)
            })
            .collect();
        format!(
            "all values of all types of depth <= 3 over int/bool/void/string/array/tuple(2-4)/option/result, arrays of length 0..2, by strata [{}]; \
             leaves Full = {{0, -7, MAX, true, false, nil, \"s\", \"\"}}, Small = {{-7, true, nil, \"s\"}}; leaves are fed by the host (last stratum: literals); \
             each value rendered by 7 routes (v..\"\", \"\"..v, v..v, v.str(), ToString.str(v), print, println) and compared with the model printer \
             (decimal ints, true/false, nil, strings verbatim, `[ a, b ]`, `(a, b)`, some(x)/none, ok(x)/err(e)); every case is a distinct (type, value) and counts as non-trivial",
            per.join(" | ")
        )
    }
    fn assumptions(&self) -> Vec<String> {
        vec![
            "the rendering of an empty array is not given by the property statement or the manual: any `[`, zero or more spaces, `]` is accepted as long as one value uses one spelling".into(),
            "floats are not part of the statement and are not rendered".into(),
        ]
    }
}
