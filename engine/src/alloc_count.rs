//! Counting global allocator: live bytes of the whole worker process (workers are single-threaded,
//! so a before/after comparison around a history isolates that history's allocations).

use std::alloc::{GlobalAlloc, Layout, System};
use std::sync::atomic::{AtomicIsize, Ordering};

pub struct Counting;

static LIVE: AtomicIsize = AtomicIsize::new(0);

unsafe impl GlobalAlloc for Counting {
    unsafe fn alloc(&self, l: Layout) -> *mut u8 {
        let p = unsafe { System.alloc(l) };
        if !p.is_null() {
            LIVE.fetch_add(l.size() as isize, Ordering::Relaxed);
        }
        p
    }
    unsafe fn dealloc(&self, p: *mut u8, l: Layout) {
        unsafe { System.dealloc(p, l) };
        LIVE.fetch_sub(l.size() as isize, Ordering::Relaxed);
    }
    unsafe fn alloc_zeroed(&self, l: Layout) -> *mut u8 {
        let p = unsafe { System.alloc_zeroed(l) };
        if !p.is_null() {
            LIVE.fetch_add(l.size() as isize, Ordering::Relaxed);
        }
        p
    }
    unsafe fn realloc(&self, p: *mut u8, l: Layout, new_size: usize) -> *mut u8 {
        let q = unsafe { System.realloc(p, l, new_size) };
        if !q.is_null() {
            LIVE.fetch_add(new_size as isize - l.size() as isize, Ordering::Relaxed);
        }
        q
    }
}

pub fn live_bytes() -> isize {
    LIVE.load(Ordering::Relaxed)
}
