//! Driver: compile and run Abra sources on the real pipeline, with every call wrapped in
//! `catch_unwind`, panic sites captured, and host calls serviced by the harness.

use abra_core::verif::CompiledProgram;
use abra_core::vm::{Runtime, RuntimeStatusKind, VmGreenThread};
use abra_core::{FileProvider, MockFileProvider, VmType};
use std::cell::RefCell;
use std::collections::{HashMap, VecDeque};
use std::panic::{AssertUnwindSafe, catch_unwind};
use std::path::PathBuf;

thread_local! {
    static LAST_PANIC: RefCell<Option<(String, String)>> = const { RefCell::new(None) };
}

pub fn install_panic_hook() {
    std::panic::set_hook(Box::new(|info| {
        let loc = info
            .location()
            .map(|l| format!("{}:{}", l.file(), l.line()))
            .unwrap_or_else(|| "?".into());
        let msg = if let Some(s) = info.payload().downcast_ref::<&str>() {
            s.to_string()
        } else if let Some(s) = info.payload().downcast_ref::<String>() {
            s.clone()
        } else {
            "<non-string panic payload>".into()
        };
        LAST_PANIC.with(|p| *p.borrow_mut() = Some((loc, msg)));
    }));
}

#[derive(Clone, Debug, PartialEq, Eq)]
pub struct PanicInfo {
    /// file:line of the panic
    pub site: String,
    pub msg: String,
}
impl PanicInfo {
    /// line-number-free site key: file + first words of the message with digits removed
    pub fn site_key(&self) -> String {
        let file = self.site.rsplit_once(':').map(|x| x.0).unwrap_or(&self.site);
        let file = file.strip_prefix("/repo/").unwrap_or(file);
        let mut m: String = self
            .msg
            .lines()
            .next()
            .unwrap_or("")
            .chars()
            .map(|c| if c.is_ascii_digit() { '#' } else { c })
            .collect();
        m.truncate(60);
        format!("site:{file}:{m}")
    }
}

pub fn catch<T>(f: impl FnOnce() -> T) -> Result<T, PanicInfo> {
    LAST_PANIC.with(|p| *p.borrow_mut() = None);
    match catch_unwind(AssertUnwindSafe(f)) {
        Ok(v) => Ok(v),
        Err(_) => {
            let (site, msg) = LAST_PANIC
                .with(|p| p.borrow_mut().take())
                .unwrap_or(("?".into(), "?".into()));
            Err(PanicInfo { site, msg })
        }
    }
}

// ---------------------------------------------------------------- compile

pub const VH_FILE: &str = r#"#host
fn vh_emit_int(x: int) -> void
#host
fn vh_emit_str(s: string) -> void
#host
fn vh_emit_float(x: float) -> void
#host
fn vh_emit_bool(b: bool) -> void
#host
fn vh_emit_arr(a: array<int>) -> void
#host
fn vh_next_int() -> int
#host
fn vh_next_str() -> string
#host
fn vh_next_float() -> float
#host
fn vh_next_arr() -> array<int>
#host
fn vh_h0() -> int
#host
fn vh_h1(a: int) -> int
#host
fn vh_h2(a: int, b: string) -> string
#host
fn vh_h3(a: int, b: float, c: bool) -> int
"#;

#[derive(Clone, Debug)]
pub struct Src {
    pub files: Vec<(String, String)>,
    pub main: String,
}
impl Src {
    pub fn single(text: &str) -> Src {
        Src { files: vec![("main.abra".into(), text.into())], main: "main.abra".into() }
    }
    /// main file plus the harness host-function file (imported with `use vh`)
    pub fn with_vh(text: &str) -> Src {
        Src {
            files: vec![("main.abra".into(), text.into()), ("vh.abra".into(), VH_FILE.into())],
            main: "main.abra".into(),
        }
    }
    pub fn add(mut self, name: &str, text: &str) -> Src {
        self.files.push((name.into(), text.into()));
        self
    }
    pub fn provider(&self) -> Box<dyn FileProvider> {
        let mut m = HashMap::new();
        for (n, t) in &self.files {
            m.insert(PathBuf::from(n), t.clone());
        }
        MockFileProvider::new(m)
    }
    pub fn main_text(&self) -> &str {
        &self.files.iter().find(|f| f.0 == self.main).unwrap().1
    }
    /// Host-function table: ids are positions in the name-sorted list of all `#host` functions.
    pub fn host_table(&self) -> Vec<String> {
        let mut names: Vec<String> =
            vec!["print_string".into(), "eprint_string".into(), "readline".into(), "get_args".into()];
        for (_, t) in &self.files {
            let mut lines = t.lines().peekable();
            while let Some(l) = lines.next() {
                if l.trim() == "#host" {
                    if let Some(n) = lines.peek() {
                        if let Some(rest) = n.trim().strip_prefix("fn ") {
                            let name: String =
                                rest.chars().take_while(|c| c.is_alphanumeric() || *c == '_').collect();
                            names.push(name);
                        }
                    }
                } else if let Some(rest) = l.trim().strip_prefix("#host fn ") {
                    let name: String = rest.chars().take_while(|c| c.is_alphanumeric() || *c == '_').collect();
                    names.push(name);
                }
            }
        }
        names.sort();
        names.dedup();
        names
    }
}

/// Read `core/<name>.abra` from the repository's working tree (checked at run time).
pub fn core_module(name: &str) -> String {
    std::fs::read_to_string(format!("/repo/modules/core/{name}.abra"))
        .unwrap_or_else(|e| panic!("cannot read core module {name}: {e}"))
}

#[derive(Clone, Copy, Debug)]
pub struct COpts {
    pub base: u32,
    pub skip_opt: bool,
}
impl Default for COpts {
    fn default() -> Self {
        COpts { base: 1, skip_opt: false }
    }
}

pub enum Compiled {
    Ok(CompiledProgram),
    Diag(String),
    Panic(PanicInfo),
}
impl Compiled {
    pub fn class(&self) -> &'static str {
        match self {
            Compiled::Ok(_) => "compiled",
            Compiled::Diag(_) => "diagnostics",
            Compiled::Panic(_) => "compiler-panic",
        }
    }
}

pub fn compile(src: &Src, o: COpts) -> Compiled {
    abra_core::verif::reset_counters(o.base);
    abra_core::verif::set_skip_optimizer(o.skip_opt);
    let r = catch(|| abra_core::compile_bytecode(&src.main, src.provider()));
    abra_core::verif::set_skip_optimizer(false);
    match r {
        Ok(Ok(p)) => Compiled::Ok(p),
        Ok(Err(e)) => Compiled::Diag(format!("{e}")),
        Err(p) => Compiled::Panic(p),
    }
}

pub enum Checked {
    Ok,
    Diag(String),
    Panic(PanicInfo),
}
pub fn check(src: &Src, base: u32) -> Checked {
    abra_core::verif::reset_counters(base);
    match catch(|| abra_core::check(&src.main, src.provider())) {
        Ok(Ok(())) => Checked::Ok,
        Ok(Err(e)) => Checked::Diag(format!("{e}")),
        Err(p) => Checked::Panic(p),
    }
}

// ---------------------------------------------------------------- run

#[derive(Clone, Debug, PartialEq)]
pub enum Emit {
    Int(i64),
    Str(String),
    Float(u64),
    Bool(bool),
    Arr(Vec<i64>),
}

#[derive(Clone, Debug)]
pub enum Input {
    Int(i64),
    Str(String),
    Float(f64),
    Arr(Vec<i64>),
}

/// What the harness-side host does. `out` interleaves print and emit in order.
#[derive(Default)]
pub struct StdHost {
    pub out: String,
    pub err: String,
    pub emits: Vec<Emit>,
    pub inputs: VecDeque<Input>,
    pub lines: VecDeque<String>,
    pub calls: u64,
    /// set when the program asked for an input of the wrong kind / none left
    pub input_error: Option<String>,
}

impl StdHost {
    pub fn service(&mut self, name: &str, vm: &mut VmGreenThread) {
        self.calls += 1;
        match name {
            "print_string" => {
                let s = String::from_vm(vm);
                self.out.push_str(&s);
            }
            "eprint_string" => {
                let s = String::from_vm(vm);
                self.err.push_str(&s);
            }
            "readline" => {
                let s = self.lines.pop_front().unwrap_or_default();
                s.to_vm(vm);
            }
            "get_args" => {
                Vec::<String>::new().to_vm(vm);
            }
            "vh_emit_int" => {
                let x = i64::from_vm(vm);
                self.emits.push(Emit::Int(x));
            }
            "vh_emit_str" => {
                let x = String::from_vm(vm);
                self.emits.push(Emit::Str(x));
            }
            "vh_emit_float" => {
                let x = f64::from_vm(vm);
                self.emits.push(Emit::Float(x.to_bits()));
            }
            "vh_emit_bool" => {
                let x = bool::from_vm(vm);
                self.emits.push(Emit::Bool(x));
            }
            "vh_emit_arr" => {
                let x = Vec::<i64>::from_vm(vm);
                self.emits.push(Emit::Arr(x));
            }
            "vh_next_int" => match self.inputs.pop_front() {
                Some(Input::Int(x)) => x.to_vm(vm),
                o => {
                    self.input_error = Some(format!("vh_next_int got {o:?}"));
                    0i64.to_vm(vm)
                }
            },
            "vh_next_str" => match self.inputs.pop_front() {
                Some(Input::Str(x)) => x.to_vm(vm),
                o => {
                    self.input_error = Some(format!("vh_next_str got {o:?}"));
                    String::new().to_vm(vm)
                }
            },
            "vh_next_float" => match self.inputs.pop_front() {
                Some(Input::Float(x)) => x.to_vm(vm),
                o => {
                    self.input_error = Some(format!("vh_next_float got {o:?}"));
                    0f64.to_vm(vm)
                }
            },
            "vh_next_arr" => match self.inputs.pop_front() {
                Some(Input::Arr(x)) => x.to_vm(vm),
                o => {
                    self.input_error = Some(format!("vh_next_arr got {o:?}"));
                    Vec::<i64>::new().to_vm(vm)
                }
            },
            // multi-argument host functions: arguments are popped last-first; what was received is
            // recorded in `emits` (in declaration order) and the result is a function of the arguments
            "vh_h0" => {
                self.emits.push(Emit::Str("h0".into()));
                match self.inputs.pop_front() {
                    Some(Input::Int(x)) => x.to_vm(vm),
                    _ => 100i64.to_vm(vm),
                }
            }
            "vh_h1" => {
                let a = i64::from_vm(vm);
                self.emits.push(Emit::Str("h1".into()));
                self.emits.push(Emit::Int(a));
                a.wrapping_mul(10).wrapping_add(1).to_vm(vm);
            }
            "vh_h2" => {
                let b = String::from_vm(vm);
                let a = i64::from_vm(vm);
                self.emits.push(Emit::Str("h2".into()));
                self.emits.push(Emit::Int(a));
                self.emits.push(Emit::Str(b.clone()));
                format!("{b}<{a}>").to_vm(vm);
            }
            "vh_h3" => {
                let c = bool::from_vm(vm);
                let b = f64::from_vm(vm);
                let a = i64::from_vm(vm);
                self.emits.push(Emit::Str("h3".into()));
                self.emits.push(Emit::Int(a));
                self.emits.push(Emit::Float(b.to_bits()));
                self.emits.push(Emit::Bool(c));
                (a.wrapping_mul(2).wrapping_add(b as i64).wrapping_add(c as i64)).to_vm(vm);
            }
            other => {
                self.input_error = Some(format!("unknown host function {other}"));
            }
        }
        vm.clear_pending_host_func();
    }
}

#[derive(Clone, Debug, PartialEq)]
pub enum End {
    Done,
    /// documented runtime error: kind is one of "panic", "array-oob", "overflow", "div-zero"
    Error { kind: String, text: String },
    /// an error kind the VM itself classes as internal (wrong type, internal error, ffi)
    InternalError { text: String },
    /// a Rust panic escaped the runtime
    Fault(PanicInfo),
    StepCap,
}
impl End {
    pub fn class(&self) -> String {
        match self {
            End::Done => "done".into(),
            End::Error { kind, .. } => format!("error:{kind}"),
            End::InternalError { .. } => "internal-error".into(),
            End::Fault(_) => "fault".into(),
            End::StepCap => "step-cap".into(),
        }
    }
    pub fn is_fault(&self) -> bool {
        matches!(self, End::Fault(_) | End::InternalError { .. })
    }
}

pub fn classify_error(text: &str) -> End {
    let first = text.lines().next().unwrap_or("");
    let kind = if first.starts_with("panic:") {
        "panic"
    } else if first.contains("indexed past the end of an array") {
        "array-oob"
    } else if first.contains("integer overflow/underflow") {
        "overflow"
    } else if first.contains("division by zero") {
        "div-zero"
    } else {
        return End::InternalError { text: text.to_string() };
    };
    End::Error { kind: kind.into(), text: text.to_string() }
}

/// `file:line in fn` entries of a VmError's traceback, failing location first.
pub fn traceback(text: &str) -> Vec<(String, u32, String)> {
    let mut v = vec![];
    let mut on = false;
    for l in text.lines() {
        if l.trim() == "[traceback]" {
            on = true;
            continue;
        }
        if !on {
            continue;
        }
        let l = l.trim();
        let Some((fl, func)) = l.split_once(" in `") else { continue };
        let fl = fl.trim();
        let func = func.trim_end_matches('`');
        let Some((file, line)) = fl.rsplit_once(':') else { continue };
        v.push((file.to_string(), line.parse().unwrap_or(0), func.to_string()));
    }
    v
}

/// The final value left by a finished main program, decoded from `Value`'s Debug form.
#[derive(Clone, Debug, PartialEq)]
pub enum Top {
    Int(i64),
    Float(u64),
    Bool(bool),
    Str(String),
    Other(String),
    None,
}

pub fn decode_top(rt: &Runtime) -> Top {
    let r = catch(|| {
        let v = rt.top();
        let d = format!("{v:?}");
        // Value(<bits>, <Tag>)
        let inner = d.trim_start_matches("Value(").trim_end_matches(')');
        let (bits, tag) = inner.split_once(", ").unwrap_or(("0", "?"));
        let bits: u64 = bits.parse().unwrap_or(0);
        match tag {
            "Int" => Top::Int(bits as i64),
            "Float" => Top::Float(bits),
            "Bool" => Top::Bool(bits != 0),
            "String" => Top::Str(v.view_string(rt.main()).to_string()),
            t => Top::Other(t.to_string()),
        }
    });
    r.unwrap_or(Top::None)
}

pub struct RunOut {
    pub end: End,
    pub steps: u64,
    pub calls: u64,
    pub host: StdHost,
    pub top: Top,
}

#[derive(Clone, Copy)]
pub struct ROpts {
    pub budget: u32,
    pub max_steps: u64,
}
impl Default for ROpts {
    fn default() -> Self {
        ROpts { budget: u32::MAX, max_steps: 2_000_000 }
    }
}

/// Service every pending host call of every thread in the run queue.
pub fn service_all(rt: &mut Runtime, table: &[String], host: &mut StdHost) {
    for th in rt.iter_threads_mut() {
        if let Some(id) = th.get_pending_host_func() {
            let name = table.get(id as usize).cloned().unwrap_or_else(|| format!("#{id}"));
            host.service(&name, th);
        }
    }
}

/// Run a compiled program to its end with the given uniform budget.
pub fn run(prog: &CompiledProgram, table: &[String], host: StdHost, o: ROpts) -> RunOut {
    let mut host = host;
    let mut rt = Runtime::new(prog.clone());
    let mut steps: u64 = 0;
    let mut calls: u64 = 0;
    let r = catch(|| {
        loop {
            let budget = if o.budget == u32::MAX {
                // keep the step cap meaningful: never hand out more than the remaining allowance
                (o.max_steps.saturating_sub(steps)).min(u32::MAX as u64).max(1) as u32
            } else {
                o.budget
            };
            let st = rt.run_n_steps(budget);
            calls += 1;
            steps += st.steps_consumed as u64;
            match st.kind {
                RuntimeStatusKind::Done => return End::Done,
                RuntimeStatusKind::MainThreadError(e) => return classify_error(&format!("{e}")),
                RuntimeStatusKind::PendingHostFunc => service_all(&mut rt, table, &mut host),
                RuntimeStatusKind::OutOfSteps => {}
            }
            if steps >= o.max_steps {
                return End::StepCap;
            }
        }
    });
    match r {
        Ok(end) => {
            let top = if end == End::Done { decode_top(&rt) } else { Top::None };
            // dropping the runtime may itself fault (double free is an abort, but a panic is catchable)
            let d = catch(move || drop(rt));
            let end = match d {
                Ok(()) => end,
                Err(p) => End::Fault(p),
            };
            RunOut { end, steps, calls, host, top }
        }
        Err(p) => {
            // the runtime may be inconsistent after a panic: leak it rather than risk a double free
            std::mem::forget(rt);
            RunOut { end: End::Fault(p), steps, calls, host, top: Top::None }
        }
    }
}

/// compile + run convenience
pub fn compile_and_run(src: &Src, host: StdHost, c: COpts, r: ROpts) -> Result<RunOut, Compiled> {
    match compile(src, c) {
        Compiled::Ok(p) => Ok(run(&p, &src.host_table(), host, r)),
        other => Err(other),
    }
}
