//! U-prog: the shared universe of well-typed Abra programs used by C01, C02, C05 (and, through
//! `standalone_corpus`, by the layout / embedder properties).
//!
//! * a small typed AST of our own (`Ty`, `E`, `S`, `P`, `D`, `Prog`) — NOT abra_core's AST;
//! * a structured pretty-printer (`Tok` stream: words, mandatory statement separators, optional line
//!   breaks) that emits valid Abra, one statement per line, every compound operand parenthesised so
//!   that nothing depends on operator precedence (C31 owns precedence);
//! * a reader for the same concrete syntax (`parse_prog`) so that template families can be written
//!   as text with substituted holes and still be interpreted by the reference model (umodel.rs) on
//!   the AST; printing the AST gives the text that is compiled;
//! * deterministic enumerators for the stratified families F-expr, F-stmt, F-fn, F-data, F-match,
//!   S-jump, S-empty, S-task, each with an independently computed count.
//!
//! Nothing is sampled. Every family is a finite product / closure that is exhausted.

use crate::batch::Case;
use crate::drive::Input;
use crate::fw::Tier;

// ------------------------------------------------------------------------------------------ AST

#[derive(Clone, Debug, PartialEq)]
pub enum Ty {
    Int,
    Bool,
    Str,
    Void,
    Arr(Box<Ty>),
    Tup(Vec<Ty>),
    /// user struct or enum
    Named(String),
    Opt(Box<Ty>),
    Res(Box<Ty>, Box<Ty>),
    Fun(Vec<Ty>, Box<Ty>),
    Chan(Box<Ty>),
}

#[derive(Clone, Debug, PartialEq)]
pub enum P {
    Wild,
    Bind(String),
    Int(i64),
    Bool(bool),
    Str(String),
    Nil,
    Tup(Vec<P>),
    /// `.Name(p, ..)` (enum variant, leading dot) — args empty for a bare variant
    Variant(String, Vec<P>),
    /// `St(p, ..)` positional struct pattern
    Struct(String, Vec<P>),
}

#[derive(Clone, Debug, PartialEq)]
pub enum E {
    Int(i64),
    Bool(bool),
    Str(String),
    Nil,
    Var(String),
    /// arithmetic `+ - * / % ^`, comparison `== != < <= > >=`, logic `and or`, concatenation `..`
    Bin(String, Box<E>, Box<E>),
    Not(Box<E>),
    Neg(Box<E>),
    /// `if c {..} else if c2 {..} else {..}`; as a statement when the else part is missing
    If(Vec<(E, Vec<S>)>, Option<Vec<S>>),
    /// `{ stmts }` used as an expression (value = trailing expression statement, else nil)
    Block(Vec<S>),
    /// call of a function value / named function / struct constructor
    Call(Box<E>, Vec<E>),
    /// lambda; body is an expression (a `Block` for block bodies)
    Lam(Vec<(String, Option<Ty>)>, Box<E>),
    Tup(Vec<E>),
    Arr(Vec<E>),
    /// `Prefix.Name(args)` or `.Name(args)`
    Variant(Option<String>, String, Vec<E>),
    Field(Box<E>, String),
    Index(Box<E>, Box<E>),
    Method(Box<E>, String, Vec<E>),
    Match(Box<E>, Vec<(P, E)>),
    Try(Box<E>),
    Unwrap(Box<E>),
    /// `task { .. }` (S-task only; not interpreted by the reference model)
    Task(Vec<S>),
}

#[derive(Clone, Debug, PartialEq)]
pub enum S {
    /// let / var (true = var), pattern, optional annotation, initialiser
    Let(bool, P, Option<Ty>, E),
    /// lvalue, operator (`=`, `+=`, ..), value
    Assign(E, String, E),
    Expr(E),
    While(E, Vec<S>),
    For(P, E, Vec<S>),
    Break,
    Continue,
    Return(Option<E>),
}

#[derive(Clone, Debug, PartialEq)]
pub enum FnBody {
    Expr(E),
    Block(Vec<S>),
}

#[derive(Clone, Debug, PartialEq)]
pub enum D {
    Struct(String, Vec<(String, Ty)>),
    Enum(String, Vec<(String, Vec<Ty>)>),
    Fn { name: String, params: Vec<(String, Option<Ty>)>, ret: Option<Ty>, body: FnBody },
}

impl D {
    pub fn name(&self) -> &str {
        match self {
            D::Struct(n, _) | D::Enum(n, _) => n,
            D::Fn { name, .. } => name,
        }
    }
}

/// One element of U-prog: declarations plus the statements of the case body. In a dispatcher batch
/// the body is the body of `fn tK() -> void`; standalone it is the top level of the program (wrapped
/// in a function when it contains a `return`).
#[derive(Clone, Debug)]
pub struct Prog {
    /// family / stratum ("F-expr", "S-jump", ...)
    pub family: &'static str,
    /// stable human-readable identification inside the family
    pub label: String,
    pub decls: Vec<D>,
    pub body: Vec<S>,
    /// answers of `vh_next_int()` in order
    pub inputs: Vec<i64>,
    /// false = not interpreted by the reference model (S-task, S-empty): only "no fault" is asserted
    pub modelled: bool,
    /// extra known-finding keys for violations of this program
    pub extra_keys: Vec<String>,
    /// must be compiled as a whole top-level program (not as a function body in a batch)
    pub top_level_only: bool,
    /// canonical source text (case-specific name suffixes replaced by `_u`): identifies the program
    /// independently of its position in the enumeration and of the tier
    pub canon: String,
}

// ------------------------------------------------------------------------------------------ tokens

#[derive(Clone, Copy, Debug, PartialEq, Eq)]
pub enum TK {
    Word,
    /// mandatory statement separator (newline or `;`)
    Sep,
    /// optional line break (pure layout)
    Brk,
}

#[derive(Clone, Debug, PartialEq)]
pub struct Tok {
    pub kind: TK,
    pub text: String,
    /// no space between this token and the previous one
    pub glue: bool,
}

#[derive(Default, Clone, Debug)]
pub struct Toks(pub Vec<Tok>);

impl Toks {
    fn w(&mut self, s: &str) {
        self.0.push(Tok { kind: TK::Word, text: s.to_string(), glue: false });
    }
    fn g(&mut self, s: &str) {
        self.0.push(Tok { kind: TK::Word, text: s.to_string(), glue: true });
    }
    fn sep(&mut self) {
        if matches!(self.0.last(), Some(t) if t.kind != TK::Word) {
            return;
        }
        self.0.push(Tok { kind: TK::Sep, text: String::new(), glue: false });
    }
    fn brk(&mut self) {
        if matches!(self.0.last(), Some(t) if t.kind != TK::Word) {
            return;
        }
        self.0.push(Tok { kind: TK::Brk, text: String::new(), glue: false });
    }
    /// text with one statement per line
    pub fn text(&self) -> String {
        let mut s = String::new();
        let mut at_line_start = true;
        for t in &self.0 {
            match t.kind {
                TK::Word => {
                    if !at_line_start && !t.glue {
                        s.push(' ');
                    }
                    s.push_str(&t.text);
                    at_line_start = false;
                }
                TK::Sep | TK::Brk => {
                    if !at_line_start {
                        s.push('\n');
                    }
                    at_line_start = true;
                }
            }
        }
        if s.ends_with('\n') {
            s.pop();
        }
        s
    }
    /// the lines of `text()` (each line is one statement or a block opener / closer)
    pub fn lines(&self) -> Vec<String> {
        self.text().lines().map(|l| l.to_string()).collect()
    }
    /// number of mandatory statement separators (statement boundaries)
    pub fn n_statement_boundaries(&self) -> usize {
        self.0.iter().filter(|t| t.kind == TK::Sep).count()
    }
}

// ------------------------------------------------------------------------------------------ printer

impl Ty {
    pub fn src(&self) -> String {
        match self {
            Ty::Int => "int".into(),
            Ty::Bool => "bool".into(),
            Ty::Str => "string".into(),
            Ty::Void => "void".into(),
            Ty::Arr(t) => format!("array<{}>", t.src()),
            Ty::Tup(ts) => format!("({})", ts.iter().map(|t| t.src()).collect::<Vec<_>>().join(", ")),
            Ty::Named(n) => n.clone(),
            Ty::Opt(t) => format!("option<{}>", t.src()),
            Ty::Res(a, b) => format!("result<{}, {}>", a.src(), b.src()),
            Ty::Fun(ps, r) => {
                let r = match &**r {
                    Ty::Fun(..) => format!("({})", r.src()),
                    _ => r.src(),
                };
                if ps.len() == 1 && !matches!(ps[0], Ty::Fun(..) | Ty::Tup(_)) {
                    format!("{} -> {}", ps[0].src(), r)
                } else {
                    format!("({}) -> {}", ps.iter().map(|t| t.src()).collect::<Vec<_>>().join(", "), r)
                }
            }
            Ty::Chan(t) => format!("channel<{}>", t.src()),
        }
    }
}

fn str_lit(s: &str) -> String {
    let mut o = String::from("\"");
    for c in s.chars() {
        match c {
            '"' => o.push_str("\\\""),
            '\\' => o.push_str("\\\\"),
            '\n' => o.push_str("\\n"),
            c => o.push(c),
        }
    }
    o.push('"');
    o
}

impl P {
    fn print(&self, t: &mut Toks, first_glue: bool) {
        let put = |t: &mut Toks, s: &str| {
            if first_glue {
                t.g(s)
            } else {
                t.w(s)
            }
        };
        match self {
            P::Wild => put(t, "_"),
            P::Bind(n) => put(t, n),
            P::Int(v) => put(t, &v.to_string()),
            P::Bool(b) => put(t, if *b { "true" } else { "false" }),
            P::Str(s) => put(t, &str_lit(s)),
            P::Nil => put(t, "nil"),
            P::Tup(ps) => {
                put(t, "(");
                for (i, p) in ps.iter().enumerate() {
                    if i > 0 {
                        t.g(",");
                    }
                    p.print(t, i == 0);
                }
                t.g(")");
            }
            P::Variant(n, ps) | P::Struct(n, ps) => {
                let name = if matches!(self, P::Variant(..)) { format!(".{n}") } else { n.clone() };
                put(t, &name);
                if !ps.is_empty() {
                    t.g("(");
                    for (i, p) in ps.iter().enumerate() {
                        if i > 0 {
                            t.g(",");
                        }
                        p.print(t, i == 0);
                    }
                    t.g(")");
                }
            }
        }
    }
}

fn print_block(t: &mut Toks, b: &[S], glue_open: bool) {
    if glue_open {
        t.g("{");
    } else {
        t.w("{");
    }
    t.brk();
    for s in b {
        s.print(t);
        t.sep();
    }
    // the separator before `}` is only layout
    if let Some(last) = t.0.last_mut() {
        if last.kind == TK::Sep {
            last.kind = TK::Brk;
        }
    }
    t.w("}");
}

fn print_args(t: &mut Toks, args: &[E]) {
    t.g("(");
    for (i, a) in args.iter().enumerate() {
        if i > 0 {
            t.g(",");
        }
        a.print(t, i == 0);
    }
    t.g(")");
}

impl E {
    /// can stand as an operand without parentheses
    fn atomic(&self) -> bool {
        matches!(
            self,
            E::Int(_) | E::Bool(_) | E::Str(_) | E::Nil | E::Var(_) | E::Call(..) | E::Tup(_) | E::Arr(_) | E::Variant(..) | E::Field(..) | E::Index(..) | E::Method(..) | E::Block(_)
        )
    }
    fn operand(&self, t: &mut Toks, glue: bool) {
        if self.atomic() {
            self.print(t, glue);
        } else {
            if glue {
                t.g("(");
            } else {
                t.w("(");
            }
            self.print(t, true);
            t.g(")");
        }
    }
    pub fn print(&self, t: &mut Toks, glue: bool) {
        let put = |t: &mut Toks, s: &str| {
            if glue {
                t.g(s)
            } else {
                t.w(s)
            }
        };
        match self {
            E::Int(v) => {
                if *v < 0 {
                    put(t, &format!("({v})"))
                } else {
                    put(t, &v.to_string())
                }
            }
            E::Bool(b) => put(t, if *b { "true" } else { "false" }),
            E::Str(s) => put(t, &str_lit(s)),
            E::Nil => put(t, "nil"),
            E::Var(n) => put(t, n),
            E::Bin(op, a, b) => {
                a.operand(t, glue);
                t.w(op);
                b.operand(t, false);
            }
            E::Not(a) => {
                put(t, "not");
                a.operand(t, false);
            }
            E::Neg(a) => {
                put(t, "-");
                // `-7` would be lexed as one literal, which is the same value; anything else is parenthesised
                match &**a {
                    E::Int(v) if *v >= 0 => t.g(&v.to_string()),
                    E::Var(n) => t.g(n),
                    other => {
                        t.g("(");
                        other.print(t, true);
                        t.g(")");
                    }
                }
            }
            E::If(arms, els) => {
                for (i, (c, b)) in arms.iter().enumerate() {
                    if i == 0 {
                        put(t, "if");
                    } else {
                        t.w("else");
                        t.w("if");
                    }
                    c.print(t, false);
                    print_block(t, b, false);
                }
                if let Some(b) = els {
                    t.w("else");
                    print_block(t, b, false);
                }
            }
            E::Block(b) => print_block(t, b, glue),
            E::Call(f, args) => {
                f.operand(t, glue);
                print_args(t, args);
            }
            E::Lam(ps, body) => {
                put(t, "(");
                for (i, (n, ty)) in ps.iter().enumerate() {
                    if i > 0 {
                        t.g(",");
                        t.w(n);
                    } else {
                        t.g(n);
                    }
                    if let Some(ty) = ty {
                        t.g(":");
                        t.w(&ty.src());
                    }
                }
                t.g(")");
                t.w("->");
                body.print(t, false);
            }
            E::Tup(es) => {
                put(t, "(");
                for (i, e) in es.iter().enumerate() {
                    if i > 0 {
                        t.g(",");
                    }
                    e.print(t, i == 0);
                }
                t.g(")");
            }
            E::Arr(es) => {
                put(t, "[");
                for (i, e) in es.iter().enumerate() {
                    if i > 0 {
                        t.g(",");
                    }
                    e.print(t, i == 0);
                }
                t.g("]");
            }
            E::Variant(pre, n, args) => {
                match pre {
                    Some(p) => put(t, &format!("{p}.{n}")),
                    None => put(t, &format!(".{n}")),
                }
                if !args.is_empty() {
                    print_args(t, args);
                }
            }
            E::Field(a, f) => {
                a.operand(t, glue);
                t.g(&format!(".{f}"));
            }
            E::Index(a, i) => {
                a.operand(t, glue);
                t.g("[");
                i.print(t, true);
                t.g("]");
            }
            E::Method(a, m, args) => {
                a.operand(t, glue);
                t.g(&format!(".{m}"));
                print_args(t, args);
            }
            E::Match(sc, arms) => {
                put(t, "match");
                sc.operand(t, false);
                t.w("{");
                t.brk();
                for (p, e) in arms {
                    p.print(t, false);
                    t.w("->");
                    e.print(t, false);
                    t.sep();
                }
                if let Some(last) = t.0.last_mut() {
                    if last.kind == TK::Sep {
                        last.kind = TK::Brk;
                    }
                }
                t.w("}");
            }
            E::Try(a) => {
                a.operand(t, glue);
                t.g("?");
            }
            E::Unwrap(a) => {
                a.operand(t, glue);
                t.g("!");
            }
            E::Task(b) => {
                put(t, "task");
                print_block(t, b, false);
            }
        }
    }
}

impl S {
    pub fn print(&self, t: &mut Toks) {
        match self {
            S::Let(m, p, ty, e) => {
                t.w(if *m { "var" } else { "let" });
                p.print(t, false);
                if let Some(ty) = ty {
                    t.g(":");
                    t.w(&ty.src());
                }
                t.w("=");
                e.print(t, false);
            }
            S::Assign(l, op, e) => {
                l.print(t, false);
                t.w(op);
                e.print(t, false);
            }
            S::Expr(e) => e.print(t, false),
            S::While(c, b) => {
                t.w("while");
                c.print(t, false);
                print_block(t, b, false);
            }
            S::For(p, e, b) => {
                t.w("for");
                p.print(t, false);
                t.w("in");
                e.print(t, false);
                print_block(t, b, false);
            }
            S::Break => t.w("break"),
            S::Continue => t.w("continue"),
            S::Return(None) => t.w("return"),
            S::Return(Some(e)) => {
                t.w("return");
                e.print(t, false);
            }
        }
    }
}

impl D {
    pub fn print(&self, t: &mut Toks) {
        match self {
            D::Struct(n, fs) => {
                t.w("type");
                t.w(n);
                t.w("=");
                t.w("{");
                t.brk();
                for (f, ty) in fs {
                    t.w(f);
                    t.g(":");
                    t.w(&ty.src());
                    t.sep();
                }
                if let Some(last) = t.0.last_mut() {
                    if last.kind == TK::Sep {
                        last.kind = TK::Brk;
                    }
                }
                t.w("}");
            }
            D::Enum(n, vs) => {
                t.w("type");
                t.w(n);
                t.w("=");
                for (i, (v, tys)) in vs.iter().enumerate() {
                    if i > 0 {
                        t.w("|");
                    }
                    t.w(v);
                    if !tys.is_empty() {
                        t.g("(");
                        t.g(&tys.iter().map(|x| x.src()).collect::<Vec<_>>().join(", "));
                        t.g(")");
                    }
                }
            }
            D::Fn { name, params, ret, body } => {
                t.w("fn");
                t.w(name);
                t.g("(");
                for (i, (n, ty)) in params.iter().enumerate() {
                    if i > 0 {
                        t.g(",");
                        t.w(n);
                    } else {
                        t.g(n);
                    }
                    if let Some(ty) = ty {
                        t.g(":");
                        t.w(&ty.src());
                    }
                }
                t.g(")");
                if let Some(r) = ret {
                    t.w("->");
                    t.w(&r.src());
                }
                match body {
                    FnBody::Expr(e) => {
                        t.w("=");
                        e.print(t, false);
                    }
                    FnBody::Block(b) => print_block(t, b, false),
                }
            }
        }
    }
    pub fn text(&self) -> String {
        let mut t = Toks::default();
        self.print(&mut t);
        t.text()
    }
}

pub fn stmts_toks(b: &[S]) -> Toks {
    let mut t = Toks::default();
    for s in b {
        s.print(&mut t);
        t.sep();
    }
    t
}

fn contains_return(b: &[S]) -> bool {
    fn in_e(e: &E) -> bool {
        match e {
            E::Bin(_, a, b) => in_e(a) || in_e(b),
            E::Not(a) | E::Neg(a) | E::Try(a) | E::Unwrap(a) | E::Field(a, _) => in_e(a),
            E::If(arms, els) => arms.iter().any(|(c, b)| in_e(c) || contains_return(b)) || els.as_ref().map(|b| contains_return(b)).unwrap_or(false),
            E::Block(b) => contains_return(b),
            E::Call(f, a) => in_e(f) || a.iter().any(in_e),
            E::Lam(..) | E::Task(_) => false,
            E::Tup(a) | E::Arr(a) | E::Variant(_, _, a) => a.iter().any(in_e),
            E::Index(a, b) => in_e(a) || in_e(b),
            E::Method(a, _, b) => in_e(a) || b.iter().any(in_e),
            E::Match(s, arms) => in_e(s) || arms.iter().any(|(_, e)| in_e(e)),
            _ => false,
        }
    }
    b.iter().any(|s| match s {
        S::Return(_) => true,
        S::Let(_, _, _, e) | S::Expr(e) => in_e(e),
        S::Assign(l, _, e) => in_e(l) || in_e(e),
        S::While(c, b) => in_e(c) || contains_return(b),
        S::For(_, e, b) => in_e(e) || contains_return(b),
        _ => false,
    })
}

impl Prog {
    pub fn decl_texts(&self) -> Vec<String> {
        self.decls.iter().map(|d| d.text()).collect()
    }
    pub fn body_toks(&self) -> Toks {
        stmts_toks(&self.body)
    }
    pub fn body_text(&self) -> String {
        self.body_toks().text()
    }
    /// stable identification text of the case: family and canonical source (no enumeration index)
    pub fn key_text(&self) -> String {
        format!("{}\n{}", self.family, self.canon)
    }
    pub fn name(&self) -> String {
        format!("{} {}", self.family, self.label)
    }
    pub fn has_return(&self) -> bool {
        contains_return(&self.body)
    }
    pub fn host_inputs(&self) -> Vec<Input> {
        self.inputs.iter().map(|v| Input::Int(*v)).collect()
    }
    /// the dispatcher case (function body + declarations)
    pub fn case(&self) -> Case {
        Case { name: self.name(), decls: self.decl_texts(), body: self.body_text(), inputs: self.host_inputs() }
    }
    /// complete standalone program: `use vh`, declarations, body as top-level statements (inside a
    /// function that is called once when the body contains `return`)
    pub fn standalone(&self) -> String {
        let mut s = String::from("use vh\n");
        for d in self.decl_texts() {
            s.push_str(&d);
            s.push('\n');
        }
        if contains_return(&self.body) {
            s.push_str("fn main_body() -> void {\n");
            s.push_str(&self.body_text());
            s.push_str("\nnil\n}\nmain_body()\n");
        } else {
            s.push_str(&self.body_text());
            s.push('\n');
        }
        s
    }
}

// ------------------------------------------------------------------------------------------ reader
//
// Reads the concrete syntax the printer emits (plus unparenthesised chains of ONE operator, which
// are folded left-associatively). Template families are written as text; a template that this
// reader cannot read is a bug of the generator and panics at enumeration time.

#[derive(Clone, Debug, PartialEq)]
enum Lx {
    Id(String),
    Int(i64),
    Str(String),
    Sym(&'static str),
    Nl,
    Eof,
}

const SYMS: [&str; 33] = [
    "->", "..", "==", "!=", "<=", ">=", "+=", "-=", "*=", "/=", "%=", "+", "-", "*", "/", "%", "^", "<", ">", "=", "(", ")", "[", "]", "{", "}", ",", ":", ".", "?", "!", "|", ";",
];

fn lex(src: &str) -> Vec<Lx> {
    let cs: Vec<char> = src.chars().collect();
    let mut i = 0;
    let mut v = vec![];
    while i < cs.len() {
        let c = cs[i];
        if c == '\n' {
            v.push(Lx::Nl);
            i += 1;
        } else if c.is_whitespace() {
            i += 1;
        } else if c.is_ascii_digit() {
            let mut j = i;
            while j < cs.len() && cs[j].is_ascii_digit() {
                j += 1;
            }
            v.push(Lx::Int(cs[i..j].iter().collect::<String>().parse().unwrap()));
            i = j;
        } else if c.is_alphabetic() || c == '_' {
            let mut j = i;
            while j < cs.len() && (cs[j].is_alphanumeric() || cs[j] == '_') {
                j += 1;
            }
            v.push(Lx::Id(cs[i..j].iter().collect()));
            i = j;
        } else if c == '"' {
            let mut j = i + 1;
            let mut s = String::new();
            while cs[j] != '"' {
                if cs[j] == '\\' {
                    j += 1;
                    s.push(match cs[j] {
                        'n' => '\n',
                        c => c,
                    });
                } else {
                    s.push(cs[j]);
                }
                j += 1;
            }
            v.push(Lx::Str(s));
            i = j + 1;
        } else {
            let rest: String = cs[i..(i + 2).min(cs.len())].iter().collect();
            let sym = SYMS.iter().find(|s| rest.starts_with(**s)).unwrap_or_else(|| panic!("ugen reader: bad character {c:?} in {src}"));
            v.push(if *sym == ";" { Lx::Nl } else { Lx::Sym(sym) });
            i += sym.len();
        }
    }
    v.push(Lx::Eof);
    v
}

struct Rd {
    t: Vec<Lx>,
    i: usize,
    src: String,
}

const ENUM_PREFIXES: [&str; 4] = ["En", "option", "result", "Ev"];

impl Rd {
    fn peek(&self) -> &Lx {
        &self.t[self.i]
    }
    fn peek2(&self) -> &Lx {
        &self.t[(self.i + 1).min(self.t.len() - 1)]
    }
    fn next(&mut self) -> Lx {
        let x = self.t[self.i].clone();
        if self.i < self.t.len() - 1 {
            self.i += 1;
        }
        x
    }
    fn fail(&self, what: &str) -> ! {
        panic!("ugen reader: {what} at token {} ({:?}) in:\n{}", self.i, self.peek(), self.src)
    }
    fn is_sym(&self, s: &str) -> bool {
        matches!(self.peek(), Lx::Sym(x) if *x == s)
    }
    fn is_kw(&self, s: &str) -> bool {
        matches!(self.peek(), Lx::Id(x) if x == s)
    }
    fn eat_sym(&mut self, s: &str) -> bool {
        if self.is_sym(s) {
            self.next();
            true
        } else {
            false
        }
    }
    fn expect(&mut self, s: &str) {
        if !self.eat_sym(s) {
            self.fail(&format!("expected `{s}`"));
        }
    }
    fn eat_kw(&mut self, s: &str) -> bool {
        if self.is_kw(s) {
            self.next();
            true
        } else {
            false
        }
    }
    fn skip_nl(&mut self) {
        while *self.peek() == Lx::Nl {
            self.next();
        }
    }
    fn ident(&mut self) -> String {
        match self.next() {
            Lx::Id(s) => s,
            _ => self.fail("expected identifier"),
        }
    }

    fn ty(&mut self) -> Ty {
        let base = if self.eat_sym("(") {
            let mut ts = vec![];
            while !self.is_sym(")") {
                ts.push(self.ty());
                self.eat_sym(",");
            }
            self.expect(")");
            if self.is_sym("->") {
                self.next();
                let r = self.ty();
                return Ty::Fun(ts, Box::new(r));
            }
            if ts.len() == 1 { ts.pop().unwrap() } else { Ty::Tup(ts) }
        } else {
            let n = self.ident();
            let mut args = vec![];
            if self.eat_sym("<") {
                while !self.is_sym(">") {
                    args.push(self.ty());
                    self.eat_sym(",");
                }
                self.expect(">");
            }
            match (n.as_str(), args.len()) {
                ("int", 0) => Ty::Int,
                ("bool", 0) => Ty::Bool,
                ("string", 0) => Ty::Str,
                ("void", 0) => Ty::Void,
                ("array", 1) => Ty::Arr(Box::new(args.pop().unwrap())),
                ("option", 1) => Ty::Opt(Box::new(args.pop().unwrap())),
                ("channel", 1) => Ty::Chan(Box::new(args.pop().unwrap())),
                ("result", 2) => {
                    let b = args.pop().unwrap();
                    let a = args.pop().unwrap();
                    Ty::Res(Box::new(a), Box::new(b))
                }
                (_, 0) => Ty::Named(n),
                _ => self.fail("unknown type"),
            }
        };
        if self.is_sym("->") {
            self.next();
            let r = self.ty();
            return Ty::Fun(vec![base], Box::new(r));
        }
        base
    }

    fn pat(&mut self) -> P {
        match self.next() {
            Lx::Id(s) => match s.as_str() {
                "_" => P::Wild,
                "true" => P::Bool(true),
                "false" => P::Bool(false),
                "nil" => P::Nil,
                _ => {
                    if self.is_sym("(") && s.chars().next().unwrap().is_uppercase() {
                        self.next();
                        let mut ps = vec![];
                        while !self.is_sym(")") {
                            ps.push(self.pat());
                            self.eat_sym(",");
                        }
                        self.expect(")");
                        P::Struct(s, ps)
                    } else {
                        P::Bind(s)
                    }
                }
            },
            Lx::Int(v) => P::Int(v),
            Lx::Str(s) => P::Str(s),
            Lx::Sym("(") => {
                let mut ps = vec![];
                while !self.is_sym(")") {
                    ps.push(self.pat());
                    self.eat_sym(",");
                }
                self.expect(")");
                P::Tup(ps)
            }
            Lx::Sym(".") => {
                let n = self.ident();
                let mut ps = vec![];
                if self.eat_sym("(") {
                    while !self.is_sym(")") {
                        ps.push(self.pat());
                        self.eat_sym(",");
                    }
                    self.expect(")");
                }
                P::Variant(n, ps)
            }
            _ => self.fail("bad pattern"),
        }
    }

    fn block(&mut self) -> Vec<S> {
        self.expect("{");
        let mut v = vec![];
        loop {
            self.skip_nl();
            if self.eat_sym("}") {
                break;
            }
            v.push(self.stmt());
        }
        v
    }

    fn args(&mut self) -> Vec<E> {
        // after "("
        let mut v = vec![];
        self.skip_nl();
        while !self.is_sym(")") {
            v.push(self.expr());
            self.skip_nl();
            self.eat_sym(",");
            self.skip_nl();
        }
        self.expect(")");
        v
    }

    /// is the parenthesis starting at the current `(` a lambda parameter list?
    fn paren_is_lambda(&self) -> bool {
        let mut depth = 0;
        let mut j = self.i;
        loop {
            match &self.t[j] {
                Lx::Sym("(") => depth += 1,
                Lx::Sym(")") => {
                    depth -= 1;
                    if depth == 0 {
                        return matches!(self.t.get(j + 1), Some(Lx::Sym("->")));
                    }
                }
                Lx::Eof => return false,
                _ => {}
            }
            j += 1;
        }
    }

    fn primary(&mut self) -> E {
        match self.peek().clone() {
            Lx::Int(v) => {
                self.next();
                E::Int(v)
            }
            Lx::Str(s) => {
                self.next();
                E::Str(s)
            }
            Lx::Sym("(") => {
                if self.paren_is_lambda() {
                    self.next();
                    let mut ps = vec![];
                    while !self.is_sym(")") {
                        let n = self.ident();
                        let ty = if self.eat_sym(":") { Some(self.ty()) } else { None };
                        ps.push((n, ty));
                        self.eat_sym(",");
                    }
                    self.expect(")");
                    self.expect("->");
                    let body = self.expr();
                    return E::Lam(ps, Box::new(body));
                }
                self.next();
                let mut es = self.args();
                if es.len() == 1 { es.pop().unwrap() } else { E::Tup(es) }
            }
            Lx::Sym("[") => {
                self.next();
                let mut v = vec![];
                while !self.is_sym("]") {
                    v.push(self.expr());
                    self.eat_sym(",");
                }
                self.expect("]");
                E::Arr(v)
            }
            Lx::Sym("{") => E::Block(self.block()),
            Lx::Sym(".") => {
                self.next();
                let n = self.ident();
                let args = if self.eat_sym("(") { self.args() } else { vec![] };
                E::Variant(None, n, args)
            }
            Lx::Id(s) => match s.as_str() {
                "true" => {
                    self.next();
                    E::Bool(true)
                }
                "false" => {
                    self.next();
                    E::Bool(false)
                }
                "nil" => {
                    self.next();
                    E::Nil
                }
                "if" => self.if_expr(),
                "match" => {
                    self.next();
                    let sc = self.expr();
                    self.expect("{");
                    let mut arms = vec![];
                    loop {
                        self.skip_nl();
                        if self.eat_sym("}") {
                            break;
                        }
                        let p = self.pat();
                        self.expect("->");
                        let e = self.expr();
                        arms.push((p, e));
                        self.eat_sym(",");
                    }
                    E::Match(Box::new(sc), arms)
                }
                "task" => {
                    self.next();
                    E::Task(self.block())
                }
                _ => {
                    self.next();
                    if self.is_sym("->") {
                        self.next();
                        let body = self.expr();
                        return E::Lam(vec![(s, None)], Box::new(body));
                    }
                    if ENUM_PREFIXES.contains(&s.as_str()) && self.is_sym(".") {
                        if let Lx::Id(n) = self.peek2().clone() {
                            self.next();
                            self.next();
                            let args = if self.eat_sym("(") { self.args() } else { vec![] };
                            return E::Variant(Some(s), n, args);
                        }
                    }
                    E::Var(s)
                }
            },
            _ => self.fail("bad expression"),
        }
    }

    fn if_expr(&mut self) -> E {
        let mut arms = vec![];
        let mut els = None;
        loop {
            if !self.eat_kw("if") {
                self.fail("expected if");
            }
            let c = self.expr();
            let b = self.block();
            arms.push((c, b));
            if self.eat_kw("else") {
                if self.is_kw("if") {
                    continue;
                }
                els = Some(self.block());
            }
            break;
        }
        E::If(arms, els)
    }

    fn postfix(&mut self) -> E {
        let mut e = self.primary();
        loop {
            if self.is_sym("(") {
                self.next();
                let a = self.args();
                e = E::Call(Box::new(e), a);
            } else if self.is_sym("[") {
                self.next();
                let i = self.expr();
                self.expect("]");
                e = E::Index(Box::new(e), Box::new(i));
            } else if self.is_sym(".") && matches!(self.peek2(), Lx::Id(_)) {
                self.next();
                let n = self.ident();
                if self.eat_sym("(") {
                    let a = self.args();
                    e = E::Method(Box::new(e), n, a);
                } else {
                    e = E::Field(Box::new(e), n);
                }
            } else if self.is_sym("?") {
                self.next();
                e = E::Try(Box::new(e));
            } else if self.is_sym("!") {
                self.next();
                e = E::Unwrap(Box::new(e));
            } else {
                break;
            }
        }
        e
    }

    fn operand(&mut self) -> E {
        if self.eat_kw("not") {
            let a = self.operand();
            return E::Not(Box::new(a));
        }
        if self.eat_sym("-") {
            let a = self.operand();
            return E::Neg(Box::new(a));
        }
        self.postfix()
    }

    fn binop(&self) -> Option<String> {
        match self.peek() {
            Lx::Sym(s) if ["+", "-", "*", "/", "%", "^", "==", "!=", "<", "<=", ">", ">=", ".."].contains(s) => Some(s.to_string()),
            Lx::Id(s) if s == "and" || s == "or" => Some(s.clone()),
            _ => None,
        }
    }

    fn expr(&mut self) -> E {
        let mut e = self.operand();
        let mut first: Option<String> = None;
        while let Some(op) = self.binop() {
            if let Some(f) = &first {
                if *f != op {
                    self.fail("mixed operators without parentheses in a template");
                }
            }
            first = Some(op.clone());
            self.next();
            self.skip_nl();
            let r = self.operand();
            e = E::Bin(op, Box::new(e), Box::new(r));
        }
        e
    }

    fn stmt(&mut self) -> S {
        let s = if self.is_kw("let") || self.is_kw("var") {
            let m = self.is_kw("var");
            self.next();
            let p = self.pat();
            let ty = if self.eat_sym(":") { Some(self.ty()) } else { None };
            self.expect("=");
            let e = self.expr();
            S::Let(m, p, ty, e)
        } else if self.eat_kw("while") {
            let c = self.expr();
            let b = self.block();
            S::While(c, b)
        } else if self.eat_kw("for") {
            let p = self.pat();
            if !self.eat_kw("in") {
                self.fail("expected in");
            }
            let e = self.expr();
            let b = self.block();
            S::For(p, e, b)
        } else if self.eat_kw("break") {
            S::Break
        } else if self.eat_kw("continue") {
            S::Continue
        } else if self.eat_kw("return") {
            if matches!(self.peek(), Lx::Nl | Lx::Eof | Lx::Sym("}")) { S::Return(None) } else { S::Return(Some(self.expr())) }
        } else {
            let e = self.expr();
            let op = match self.peek() {
                Lx::Sym(s) if ["=", "+=", "-=", "*=", "/=", "%="].contains(s) => Some(s.to_string()),
                _ => None,
            };
            match op {
                Some(op) => {
                    self.next();
                    let r = self.expr();
                    S::Assign(e, op, r)
                }
                None => S::Expr(e),
            }
        };
        if !matches!(self.peek(), Lx::Nl | Lx::Eof | Lx::Sym("}")) {
            self.fail("junk after statement");
        }
        s
    }

    fn decl(&mut self) -> D {
        if self.eat_kw("type") {
            let n = self.ident();
            self.expect("=");
            if self.is_sym("{") {
                self.next();
                let mut fs = vec![];
                loop {
                    self.skip_nl();
                    if self.eat_sym("}") {
                        break;
                    }
                    let f = self.ident();
                    self.expect(":");
                    fs.push((f, self.ty()));
                }
                D::Struct(n, fs)
            } else {
                let mut vs = vec![];
                loop {
                    self.eat_sym("|");
                    let v = self.ident();
                    let mut tys = vec![];
                    if self.eat_sym("(") {
                        while !self.is_sym(")") {
                            tys.push(self.ty());
                            self.eat_sym(",");
                        }
                        self.expect(")");
                    }
                    vs.push((v, tys));
                    if !self.is_sym("|") {
                        break;
                    }
                }
                D::Enum(n, vs)
            }
        } else if self.eat_kw("fn") {
            let name = self.ident();
            self.expect("(");
            let mut params = vec![];
            while !self.is_sym(")") {
                let n = self.ident();
                let ty = if self.eat_sym(":") { Some(self.ty()) } else { None };
                params.push((n, ty));
                self.eat_sym(",");
            }
            self.expect(")");
            let ret = if self.eat_sym("->") { Some(self.ty()) } else { None };
            let body = if self.eat_sym("=") { FnBody::Expr(self.expr()) } else { FnBody::Block(self.block()) };
            D::Fn { name, params, ret, body }
        } else {
            self.fail("expected declaration")
        }
    }
}

/// Read a program: `type` / `fn` declarations (anywhere at top level) and body statements.
pub fn parse_prog(src: &str) -> (Vec<D>, Vec<S>) {
    let mut r = Rd { t: lex(src), i: 0, src: src.to_string() };
    let mut ds = vec![];
    let mut ss = vec![];
    loop {
        r.skip_nl();
        if *r.peek() == Lx::Eof {
            break;
        }
        if r.is_kw("type") || r.is_kw("fn") {
            ds.push(r.decl());
        } else {
            ss.push(r.stmt());
        }
    }
    (ds, ss)
}

pub fn parse_expr(src: &str) -> E {
    let mut r = Rd { t: lex(src), i: 0, src: src.to_string() };
    let e = r.expr();
    r.skip_nl();
    if *r.peek() != Lx::Eof {
        r.fail("junk after expression");
    }
    e
}

pub fn parse_stmts(src: &str) -> Vec<S> {
    let (d, s) = parse_prog(src);
    assert!(d.is_empty());
    s
}

pub fn parse_decls(src: &str) -> Vec<D> {
    let (d, s) = parse_prog(src);
    assert!(s.is_empty(), "statements in declaration text: {src}");
    d
}

// ------------------------------------------------------------------------------------------ shared declarations

/// Declarations shared verbatim by all programs (emitted once per dispatcher batch).
pub const SHARED_DECLS: &str = r#"
fn tr(k: int, v: int) -> int {
vh_emit_int(k)
v
}
fn trb(k: int, v: bool) -> bool {
vh_emit_int(k)
v
}
fn trs(k: int, v: string) -> string {
vh_emit_int(k)
v
}
fn sub2(a: int, b: int) -> int = a - b
fn dbl(y: int) -> int = y * 2
fn inc(y: int) -> int = y + 1
fn apply(f: int -> int, w: int) -> int = f(w)
fn twice(f: int -> int, w: int) -> int = f(f(w))
fn mk(n: int) -> (int -> int) = (y: int) -> y + n
fn ida(a: array<int>) -> array<int> = a
fn push7(a: array<int>) -> void {
a.push(7)
}
fn mayb(i: int) -> option<int> {
if (i % 2) == 0 {
option.none
} else {
option.some(1)
}
}
fn vf() -> void {
vh_emit_int(77)
}
fn tv(x: void) -> int = 3
type St = {
a: int
b: string
}
type Sv = {
a: int
v: void
b: string
}
type Pt = {
x: int
y: int
}
type Hold = {
arr: array<int>
n: int
}
type Outer = {
inner: St
k: int
}
type En = Aa | Bb(int) | Cc(int, string) | Dd(void)
type Ev = Va(int, void) | Vb(void, int) | Vc
fn ids(s: St) -> St = s
fn seta(s: St, w: int) -> void {
s.a = w
}
"#;

pub fn shared_decls() -> Vec<D> {
    parse_decls(SHARED_DECLS)
}

fn needed_decls(all: &[D], body: &[S], extra: &[D]) -> Vec<D> {
    // keep a shared declaration only when the program mentions its name (keeps standalone programs small);
    // closure over the declarations' own references
    let mut text = stmts_toks(body).text();
    for d in extra {
        text.push('\n');
        text.push_str(&d.text());
    }
    let mentions = |t: &str, n: &str| {
        let mut from = 0;
        while let Some(p) = t[from..].find(n) {
            let s = from + p;
            let e = s + n.len();
            let before_ok = s == 0 || !(t.as_bytes()[s - 1].is_ascii_alphanumeric() || t.as_bytes()[s - 1] == b'_');
            let after_ok = e >= t.len() || !(t.as_bytes()[e].is_ascii_alphanumeric() || t.as_bytes()[e] == b'_');
            if before_ok && after_ok {
                return true;
            }
            from = e;
        }
        false
    };
    let mut keep = vec![false; all.len()];
    loop {
        let mut changed = false;
        for (i, d) in all.iter().enumerate() {
            if !keep[i] && mentions(&text, d.name()) {
                keep[i] = true;
                text.push('\n');
                text.push_str(&d.text());
                changed = true;
            }
        }
        if !changed {
            break;
        }
    }
    let mut v: Vec<D> = all.iter().zip(keep).filter(|(_, k)| *k).map(|(d, _)| d.clone()).collect();
    v.extend(extra.iter().cloned());
    v
}

// ------------------------------------------------------------------------------------------ F-expr

/// Alphabet and bound of one F-expr stratum: the typed closure of the node kinds to depth `depth`.
#[derive(Clone, Debug)]
pub struct ECfg {
    pub name: &'static str,
    pub depth: u32,
    pub ints: Vec<&'static str>,
    pub bools: Vec<&'static str>,
    pub strs: Vec<&'static str>,
    /// integer binary operators
    pub arith: Vec<&'static str>,
    /// integer comparisons (bool result)
    pub cmp: Vec<&'static str>,
    /// comparisons on strings
    pub strcmp: Vec<&'static str>,
    /// `==` / `!=` on bools
    pub booleq: Vec<&'static str>,
    /// `and` / `or`
    pub logic: Vec<&'static str>,
    pub not: bool,
    pub neg: bool,
    /// `if b { i } else { i }`
    pub if_int: bool,
    /// `if b { s } else { s }`
    pub if_str: bool,
    /// `{ i }`
    pub blk: bool,
    /// `{ let t = i1; t - i2 }` (block with a local and a trailing expression)
    pub blk2: bool,
    /// `sub2(i1, i2)` (user function call, two arguments)
    pub call2: bool,
    /// `x .. y` for every pair of operand types
    pub concat: bool,
    /// wrap every leaf in a tracing call (labels are assigned in evaluation-independent pre-order)
    pub trace: bool,
}

#[derive(Clone, Copy, PartialEq, Eq, Debug)]
pub enum ETy {
    I,
    B,
    S,
}

fn leaf(s: &str) -> E {
    parse_expr(s)
}

impl ECfg {
    fn level(&self, d: u32) -> [Vec<E>; 3] {
        let mut cur: [Vec<E>; 3] = [self.ints.iter().map(|s| leaf(s)).collect(), self.bools.iter().map(|s| leaf(s)).collect(), self.strs.iter().map(|s| leaf(s)).collect()];
        for _ in 0..d {
            let mut next: [Vec<E>; 3] = [vec![], vec![], vec![]];
            for ty in [ETy::I, ETy::B, ETy::S] {
                let n = self.count_at(&cur, ty);
                for k in 0..n {
                    next[ty as usize].push(self.node_at(&cur, ty, k));
                }
            }
            cur = next;
        }
        cur
    }

    /// segments of the level above `lower` for type `ty`: (kind, operator, arity sizes)
    fn segments(&self, lower: &[Vec<E>; 3], ty: ETy) -> Vec<(&'static str, &'static str, Vec<usize>)> {
        let (ni, nb, ns) = (lower[0].len(), lower[1].len(), lower[2].len());
        let mut v = vec![];
        match ty {
            ETy::I => {
                v.push(("leaf", "", vec![self.ints.len()]));
                for op in &self.arith {
                    v.push(("bin-ii", *op, vec![ni, ni]));
                }
                if self.call2 {
                    v.push(("call2", "", vec![ni, ni]));
                }
                if self.neg {
                    v.push(("neg", "", vec![ni]));
                }
                if self.if_int {
                    v.push(("if-i", "", vec![nb, ni, ni]));
                }
                if self.blk {
                    v.push(("blk", "", vec![ni]));
                }
                if self.blk2 {
                    v.push(("blk2", "", vec![ni, ni]));
                }
            }
            ETy::B => {
                v.push(("leaf", "", vec![self.bools.len()]));
                for op in &self.cmp {
                    v.push(("bin-ii", *op, vec![ni, ni]));
                }
                for op in &self.strcmp {
                    v.push(("bin-ss", *op, vec![ns, ns]));
                }
                for op in &self.booleq {
                    v.push(("bin-bb", *op, vec![nb, nb]));
                }
                for op in &self.logic {
                    v.push(("bin-bb", *op, vec![nb, nb]));
                }
                if self.not {
                    v.push(("not", "", vec![nb]));
                }
            }
            ETy::S => {
                v.push(("leaf", "", vec![self.strs.len()]));
                if self.concat {
                    for (k, a, b) in [("cat-ss", ns, ns), ("cat-si", ns, ni), ("cat-is", ni, ns), ("cat-sb", ns, nb), ("cat-bs", nb, ns), ("cat-ii", ni, ni), ("cat-ib", ni, nb), ("cat-bi", nb, ni), ("cat-bb", nb, nb)] {
                        v.push((k, "..", vec![a, b]));
                    }
                }
                if self.if_str {
                    v.push(("if-s", "", vec![nb, ns, ns]));
                }
            }
        }
        v
    }

    fn count_at(&self, lower: &[Vec<E>; 3], ty: ETy) -> usize {
        self.segments(lower, ty).iter().map(|s| s.2.iter().product::<usize>()).sum()
    }

    fn node_at(&self, lower: &[Vec<E>; 3], ty: ETy, mut k: usize) -> E {
        for (kind, op, sizes) in self.segments(lower, ty) {
            let n: usize = sizes.iter().product();
            if k >= n {
                k -= n;
                continue;
            }
            // mixed radix, first child most significant
            let mut idx = vec![0; sizes.len()];
            for j in (0..sizes.len()).rev() {
                idx[j] = k % sizes[j];
                k /= sizes[j];
            }
            let (li, lb, ls) = (&lower[0], &lower[1], &lower[2]);
            let b = |e: &E| Box::new(e.clone());
            let pick = |c: char, i: usize| -> E {
                match c {
                    'i' => li[i].clone(),
                    'b' => lb[i].clone(),
                    _ => ls[i].clone(),
                }
            };
            return match kind {
                "leaf" => match ty {
                    ETy::I => leaf(self.ints[idx[0]]),
                    ETy::B => leaf(self.bools[idx[0]]),
                    ETy::S => leaf(self.strs[idx[0]]),
                },
                "bin-ii" => E::Bin(op.into(), b(&li[idx[0]]), b(&li[idx[1]])),
                "bin-bb" => E::Bin(op.into(), b(&lb[idx[0]]), b(&lb[idx[1]])),
                "bin-ss" => E::Bin(op.into(), b(&ls[idx[0]]), b(&ls[idx[1]])),
                "call2" => E::Call(Box::new(E::Var("sub2".into())), vec![li[idx[0]].clone(), li[idx[1]].clone()]),
                "neg" => E::Neg(b(&li[idx[0]])),
                "not" => E::Not(b(&lb[idx[0]])),
                "if-i" => E::If(vec![(lb[idx[0]].clone(), vec![S::Expr(li[idx[1]].clone())])], Some(vec![S::Expr(li[idx[2]].clone())])),
                "if-s" => E::If(vec![(lb[idx[0]].clone(), vec![S::Expr(ls[idx[1]].clone())])], Some(vec![S::Expr(ls[idx[2]].clone())])),
                "blk" => E::Block(vec![S::Expr(li[idx[0]].clone())]),
                "blk2" => E::Block(vec![S::Let(false, P::Bind("t".into()), None, li[idx[0]].clone()), S::Expr(E::Bin("-".into(), Box::new(E::Var("t".into())), b(&li[idx[1]])))]),
                k if k.starts_with("cat-") => {
                    let cs: Vec<char> = k[4..].chars().collect();
                    E::Bin("..".into(), Box::new(pick(cs[0], idx[0])), Box::new(pick(cs[1], idx[1])))
                }
                _ => unreachable!(),
            };
        }
        panic!("F-expr index out of range");
    }

    /// closed-form sizes (nI, nB, nS) of the closure at depth d, from the alphabet sizes alone
    pub fn formula(&self, d: u32) -> (u64, u64, u64) {
        let (mut ni, mut nb, mut ns) = (self.ints.len() as u64, self.bools.len() as u64, self.strs.len() as u64);
        for _ in 0..d {
            let i2 = self.ints.len() as u64
                + (self.arith.len() as u64 + self.call2 as u64 + self.blk2 as u64) * ni * ni
                + (self.neg as u64 + self.blk as u64) * ni
                + self.if_int as u64 * nb * ni * ni;
            let b2 = self.bools.len() as u64 + self.cmp.len() as u64 * ni * ni + self.strcmp.len() as u64 * ns * ns + (self.booleq.len() + self.logic.len()) as u64 * nb * nb + self.not as u64 * nb;
            let s2 = self.strs.len() as u64 + self.concat as u64 * (ni + nb + ns) * (ni + nb + ns) + self.if_str as u64 * nb * ns * ns;
            ni = i2;
            nb = b2;
            ns = s2;
        }
        (ni, nb, ns)
    }
    pub fn formula_total(&self) -> u64 {
        let (a, b, c) = self.formula(self.depth);
        a + b + c
    }
}

/// A materialised F-expr stratum: the level below the top is kept in memory, the top level is
/// decoded from the case index.
pub struct EUniverse {
    pub cfg: ECfg,
    lower: [Vec<E>; 3],
    counts: [usize; 3],
    shared: Vec<D>,
}

/// number every traced leaf in pre-order
fn label_traces(e: &mut E, next: &mut i64) {
    match e {
        E::Call(f, args) => {
            if let E::Var(n) = &**f {
                if (n == "tr" || n == "trb" || n == "trs") && args.len() == 2 {
                    args[0] = E::Int(*next);
                    *next += 1;
                    label_traces(&mut args[1], next);
                    return;
                }
            }
            for a in args {
                label_traces(a, next);
            }
        }
        E::Bin(_, a, b) => {
            label_traces(a, next);
            label_traces(b, next);
        }
        E::Not(a) | E::Neg(a) => label_traces(a, next),
        E::If(arms, els) => {
            for (c, b) in arms {
                label_traces(c, next);
                for s in b {
                    label_traces_s(s, next);
                }
            }
            if let Some(b) = els {
                for s in b {
                    label_traces_s(s, next);
                }
            }
        }
        E::Block(b) => {
            for s in b {
                label_traces_s(s, next);
            }
        }
        _ => {}
    }
}
fn label_traces_s(s: &mut S, next: &mut i64) {
    match s {
        S::Let(_, _, _, e) | S::Expr(e) => label_traces(e, next),
        _ => {}
    }
}

pub const EXPR_INPUTS: [i64; 2] = [-7, 2];

impl EUniverse {
    pub fn new(cfg: ECfg) -> EUniverse {
        let lower = if cfg.depth == 0 { [vec![], vec![], vec![]] } else { cfg.level(cfg.depth - 1) };
        let counts = if cfg.depth == 0 {
            [cfg.ints.len(), cfg.bools.len(), cfg.strs.len()]
        } else {
            [cfg.count_at(&lower, ETy::I), cfg.count_at(&lower, ETy::B), cfg.count_at(&lower, ETy::S)]
        };
        EUniverse { cfg, lower, counts, shared: shared_decls() }
    }
    pub fn len(&self) -> u64 {
        self.counts.iter().sum::<usize>() as u64
    }
    pub fn get(&self, idx: u64) -> Prog {
        let mut k = idx as usize;
        let mut ty = ETy::I;
        for t in [ETy::I, ETy::B, ETy::S] {
            if k < self.counts[t as usize] {
                ty = t;
                break;
            }
            k -= self.counts[t as usize];
        }
        let mut e = if self.cfg.depth == 0 {
            match ty {
                ETy::I => leaf(self.cfg.ints[k]),
                ETy::B => leaf(self.cfg.bools[k]),
                ETy::S => leaf(self.cfg.strs[k]),
            }
        } else {
            self.cfg.node_at(&self.lower, ty, k)
        };
        let mut next = 1;
        label_traces(&mut e, &mut next);
        let mut body = parse_stmts("let x = vh_next_int()\nlet y = vh_next_int()\nlet p = x < y\nlet q = x > y\nlet s = \"b\" .. y");
        let emit = match ty {
            ETy::I => "vh_emit_int",
            ETy::B => "vh_emit_bool",
            ETy::S => "vh_emit_str",
        };
        body.push(S::Expr(E::Call(Box::new(E::Var(emit.into())), vec![e])));
        let decls = needed_decls(&self.shared, &body, &[]);
        let canon = stmts_toks(&body).text();
        Prog {
            canon,
            family: "F-expr",
            label: format!("{}#{}", self.cfg.name, idx),
            decls,
            body,
            inputs: EXPR_INPUTS.to_vec(),
            modelled: true,
            extra_keys: vec![],
            top_level_only: false,
        }
    }
}

fn full_leaves() -> (Vec<&'static str>, Vec<&'static str>, Vec<&'static str>) {
    (vec!["x", "y", "0", "1", "2", "7"], vec!["p", "q", "true", "false"], vec!["s", "\"a\"", "\"\""])
}

pub fn expr_cfgs(tier: Tier) -> Vec<ECfg> {
    let (ints, bools, strs) = full_leaves();
    let all_arith = vec!["+", "-", "*", "/", "%", "^"];
    let all_cmp = vec!["==", "!=", "<", "<=", ">", ">="];
    // E1: depth 1, every operator, every leaf (values; errors from `/ 0`, `% 0`)
    let e1 = ECfg {
        name: "E1-depth1-full",
        depth: 1,
        ints: ints.clone(),
        bools: bools.clone(),
        strs: strs.clone(),
        arith: all_arith.clone(),
        cmp: all_cmp.clone(),
        strcmp: vec!["==", "!=", "<", ">="],
        booleq: vec!["==", "!="],
        logic: vec!["and", "or"],
        not: true,
        neg: true,
        if_int: true,
        if_str: true,
        blk: true,
        blk2: true,
        call2: true,
        concat: true,
        trace: false,
    };
    // E2: depth 2, reduced operator classes, every leaf traced so that evaluation order and
    // short-circuiting are observable
    let traced = |name: &'static str, depth: u32, two_leaves: bool| ECfg {
        name,
        depth,
        ints: if two_leaves { vec!["tr(0, x)", "tr(0, 2)"] } else { vec!["tr(0, x)"] },
        bools: if two_leaves { vec!["trb(0, p)", "trb(0, false)"] } else { vec!["trb(0, p)"] },
        strs: vec!["trs(0, \"a\")"],
        arith: vec!["+", "/"],
        cmp: vec!["<"],
        strcmp: vec![],
        booleq: vec![],
        logic: vec!["and", "or"],
        not: true,
        neg: false,
        if_int: true,
        if_str: false,
        blk: true,
        blk2: false,
        call2: true,
        concat: true,
        trace: true,
    };
    let e2 = traced("E2-depth2-traced", 2, false);
    // E5: sequences of string operations inside one expression (s = "b2"): all six comparisons and `..` over
    // prefix-related / shared-prefix operands, results combined, so that state or operands left behind by one
    // resumable string instruction change the value (or the stack) seen by the next
    let e5 = ECfg {
        name: "E5-depth2-strings",
        depth: 2,
        ints: vec!["7"],
        bools: vec!["p"],
        strs: match tier {
            Tier::Quick => vec!["s", "\"b3\"", "\"\""],
            Tier::Thorough => vec!["s", "\"b3\"", "\"\"", "\"b\"", "\"b2\""],
        },
        arith: vec![],
        cmp: vec![],
        strcmp: vec!["==", "!=", "<", "<=", ">", ">="],
        booleq: vec!["=="],
        logic: vec!["and"],
        not: false,
        neg: false,
        if_int: false,
        if_str: false,
        blk: false,
        blk2: false,
        call2: false,
        concat: true,
        trace: false,
    };
    // E6: depth 2 over plain bool variables: `not` / and / or / == applied to variables directly (no tracing
    // call in between), the shapes the optimizer's register forms and jump rewrites see
    let e6 = ECfg {
        name: "E6-depth2-bools",
        depth: 2,
        ints: vec![],
        bools: vec!["p", "q"],
        strs: vec![],
        arith: vec![],
        cmp: vec![],
        strcmp: vec![],
        booleq: vec!["==", "!="],
        logic: vec!["and", "or"],
        not: true,
        neg: false,
        if_int: false,
        if_str: false,
        blk: false,
        blk2: false,
        call2: false,
        concat: false,
        trace: false,
    };
    match tier {
        Tier::Quick => vec![e1, e2, e5, e6],
        Tier::Thorough => {
            let e2w = traced("E2w-depth2-traced-2leaves", 2, true);
            // E3: depth 2, every operator, a variable and a literal leaf per type (one string leaf), untraced
            let e3 = ECfg {
                name: "E3-depth2-allops",
                depth: 2,
                ints: vec!["x", "2"],
                bools: vec!["p", "false"],
                strs: vec!["s"],
                arith: all_arith.clone(),
                cmp: all_cmp.clone(),
                strcmp: vec!["<"],
                booleq: vec!["=="],
                logic: vec!["and", "or"],
                not: true,
                neg: true,
                if_int: true,
                if_str: false,
                blk: true,
                blk2: true,
                call2: true,
                concat: true,
                trace: false,
            };
            // E4: depth 3, two complementary minimal alphabets, traced: (a) nesting of `if` under
            // operators and conditions, (b) nesting of logic, blocks and calls
            let e4a = ECfg {
                name: "E4a-depth3-if",
                depth: 3,
                ints: vec!["tr(0, 2)"],
                bools: vec!["trb(0, q)"],
                strs: vec![],
                arith: vec!["+"],
                cmp: vec!["<"],
                strcmp: vec![],
                booleq: vec![],
                logic: vec!["and"],
                not: false,
                neg: false,
                if_int: true,
                if_str: false,
                blk: false,
                blk2: false,
                call2: false,
                concat: false,
                trace: true,
            };
            let e4b = ECfg {
                name: "E4b-depth3-logic-block-call",
                depth: 3,
                ints: vec!["tr(0, 2)"],
                bools: vec!["trb(0, q)"],
                strs: vec![],
                arith: vec!["+"],
                cmp: vec!["<"],
                strcmp: vec![],
                booleq: vec![],
                logic: vec!["and", "or"],
                not: true,
                neg: false,
                if_int: false,
                if_str: false,
                blk: true,
                blk2: false,
                call2: true,
                concat: false,
                trace: true,
            };
            vec![e1, e2, e2w, e3, e4a, e4b, e5, e6]
        }
    }
}

// ------------------------------------------------------------------------------------------ template strata

/// A product family: `template` (declarations and body statements, read by `parse_prog`) with holes
/// `$0 .. $9`; hole k ranges over `slots[k]`. `@` in identifiers is replaced by a suffix unique to
/// the case so that case-specific declarations never collide inside a dispatcher batch.
#[derive(Clone, Debug)]
pub struct Stratum {
    pub family: &'static str,
    pub name: String,
    pub template: String,
    pub slots: Vec<Vec<String>>,
    pub inputs: Vec<i64>,
    pub modelled: bool,
    pub top_level_only: bool,
    pub extra_keys: Vec<String>,
    /// optional readable names of the alternatives of slot 0 (used in labels)
    pub alt_names: Vec<String>,
}

fn sv(v: &[&str]) -> Vec<String> {
    v.iter().map(|s| s.to_string()).collect()
}

impl Stratum {
    pub fn new(family: &'static str, name: &str, template: &str, slots: Vec<Vec<String>>) -> Stratum {
        Stratum { family, name: name.to_string(), template: template.trim().to_string(), slots, inputs: vec![], modelled: true, top_level_only: false, extra_keys: vec![], alt_names: vec![] }
    }
    /// a family given as an explicit list of (name, whole program text)
    pub fn list(family: &'static str, name: &str, items: Vec<(String, String)>) -> Stratum {
        let mut s = Stratum::new(family, name, "$0", vec![items.iter().map(|x| x.1.clone()).collect()]);
        s.alt_names = items.into_iter().map(|x| x.0).collect();
        s
    }
    pub fn inputs(mut self, i: &[i64]) -> Stratum {
        self.inputs = i.to_vec();
        self
    }
    pub fn unmodelled(mut self) -> Stratum {
        self.modelled = false;
        self
    }
    pub fn top_level(mut self) -> Stratum {
        self.top_level_only = true;
        self
    }
    pub fn key(mut self, k: &str) -> Stratum {
        self.extra_keys.push(k.to_string());
        self
    }
    pub fn len(&self) -> u64 {
        self.slots.iter().map(|s| s.len() as u64).product()
    }
    pub fn choice(&self, idx: u64) -> Vec<usize> {
        let mut k = idx;
        let mut c = vec![0; self.slots.len()];
        for j in (0..self.slots.len()).rev() {
            let n = self.slots[j].len() as u64;
            c[j] = (k % n) as usize;
            k /= n;
        }
        c
    }
    fn raw_text(&self, idx: u64) -> String {
        let c = self.choice(idx);
        let mut t = self.template.clone();
        for (j, ci) in c.iter().enumerate() {
            t = t.replace(&format!("${j}"), &self.slots[j][*ci]);
        }
        t
    }
    pub fn text(&self, idx: u64) -> String {
        let tag: String = self.name.chars().filter(|c| c.is_ascii_alphanumeric()).collect();
        self.raw_text(idx).replace('@', &format!("_{}_{}", tag, idx))
    }
    pub fn get(&self, idx: u64, shared: &[D]) -> Prog {
        let text = self.text(idx);
        let (own, body) = parse_prog(&text);
        let decls = needed_decls(shared, &body, &own);
        let c = self.choice(idx);
        let canon = {
            let (d, b) = parse_prog(&self.raw_text(idx).replace('@', "_u"));
            let mut t: Vec<String> = d.iter().map(|x| x.text()).collect();
            t.push(stmts_toks(&b).text());
            t.join("\n")
        };
        Prog {
            canon,
            family: self.family,
            label: if self.alt_names.is_empty() {
                format!("{}#{} [{}]", self.name, idx, c.iter().map(|x| x.to_string()).collect::<Vec<_>>().join(","))
            } else {
                format!("{}#{} {}", self.name, idx, self.alt_names[c[0]])
            },
            decls,
            body,
            inputs: self.inputs.clone(),
            modelled: self.modelled,
            extra_keys: self.extra_keys.clone(),
            top_level_only: self.top_level_only,
        }
    }
}

// ---------------------------------------------------------------- F-stmt

const STMT_PRE: &str = "var a = vh_next_int()\nvar b = 2\nlet c = 1\nlet arr = [3, 4]\n";
const STMT_POST: &str = "\nvh_emit_int(a)\nvh_emit_int(b)\nvh_emit_int(c)\nvh_emit_arr(arr)";

/// simple statements: valid in every position, in every order
fn simple_stmts() -> Vec<String> {
    sv(&[
        "let c = c + a",
        "var a = a * 2",
        "var b = a - 1",
        "a = b + 1",
        "a += 3",
        "a -= b",
        "b *= 2",
        "a /= 2",
        "b %= 3",
        "a /= (b - 2)",
        "vh_emit_int(a)",
        "println((a .. \",\") .. b)",
        "print(c)",
        "arr.push(a)",
        "arr[0] = b",
        "b = arr[1]",
        "a = arr[a - 4]",
        "return",
    ])
}
fn core_stmts() -> Vec<String> {
    sv(&["let c = c + a", "var a = a * 2", "a += 3", "b *= 2", "vh_emit_int(a)", "return"])
}
/// statements allowed inside a loop body
fn loop_body_stmts(with_j: bool) -> Vec<String> {
    let mut v = sv(&[
        "a += 3",
        "b *= 2",
        "vh_emit_int(a)",
        "let c = c + a",
        "var a = a * 2",
        "break",
        "continue",
        "if a > 7 {\nbreak\n}",
        "if b < 5 {\ncontinue\n}",
        "return",
        // empty blocks: the condition is evaluated and nothing else happens
        "if a > 7 {\n}",
        "if b < 5 {\n} else {\n}",
    ]);
    if with_j {
        v.push("a += j".into());
    }
    v
}
fn plain_body_stmts() -> Vec<String> {
    sv(&["a += 3", "b *= 2", "vh_emit_int(a)", "let c = c + a", "var a = a * 2", "var b = 40", "return"])
}
fn lists(alpha: &[String], min: usize, max: usize) -> Vec<String> {
    let mut out = vec![];
    let mut cur: Vec<String> = vec![String::new()];
    for len in 1..=max {
        let mut next = vec![];
        for p in &cur {
            for a in alpha {
                next.push(if p.is_empty() { a.clone() } else { format!("{p}\n{a}") });
            }
        }
        if len >= min {
            out.extend(next.iter().cloned());
        }
        cur = next;
    }
    out
}
/// compound statements with the given bodies
fn loop_stmts(min_body: usize, max_body: usize) -> Vec<String> {
    let mut v = vec![];
    for b in lists(&loop_body_stmts(false), min_body, max_body) {
        v.push(format!("var i = 0\nwhile i < 3 {{\ni += 1\n{b}\n}}"));
    }
    for (hd, _) in [("for j in 3", 0), ("for j in arr", 1), ("for j in range(1, 3)", 2)] {
        for b in lists(&loop_body_stmts(true), min_body, max_body) {
            v.push(format!("{hd} {{\n{b}\n}}\nvh_emit_int(a)"));
        }
    }
    v
}
fn plain_compound_stmts(min_body: usize, max_body: usize) -> Vec<String> {
    let mut v = vec![];
    for b in lists(&plain_body_stmts(), min_body, max_body) {
        v.push(format!("{{\n{b}\n}}"));
        v.push(format!("if a > b {{\n{b}\n}}"));
        v.push(format!("if a < b {{\nvh_emit_int(1)\n}} else {{\n{b}\n}}"));
        v.push(format!("if a > 7 {{\nvh_emit_int(2)\n}} else if b > 1 {{\n{b}\n}} else {{\nvh_emit_int(3)\n}}"));
        v.push(format!("if a > 7 {{\nvh_emit_int(2)\n}} else if b > 2 {{\nvh_emit_int(3)\n}} else {{\n{b}\n}}"));
    }
    v
}

fn stmt_strata(tier: Tier) -> Vec<Stratum> {
    let mk = |name: &str, slots: Vec<Vec<String>>| {
        let holes: String = (0..slots.len()).map(|k| format!("${k}")).collect::<Vec<_>>().join("\n");
        Stratum::new("F-stmt", name, &format!("{STMT_PRE}{holes}{STMT_POST}"), slots).inputs(&[5])
    };
    let ss = simple_stmts();
    let core = core_stmts();
    let mut comp1 = loop_stmts(1, 1);
    comp1.extend(plain_compound_stmts(1, 1));
    let mut comp2 = loop_stmts(2, 2);
    comp2.extend(plain_compound_stmts(2, 2));
    let mut v = vec![
        mk("simple1", vec![ss.clone()]),
        mk("simple2", vec![ss.clone(), ss.clone()]),
        mk("compound-body1", vec![comp1.clone()]),
        mk("compound-body2", vec![comp2.clone()]),
        mk("core;compound1", vec![core.clone(), comp1.clone()]),
        mk("compound1;core", vec![comp1.clone(), core.clone()]),
    ];
    if tier == Tier::Thorough {
        let mut a1 = ss.clone();
        a1.extend(comp1.clone());
        v.push(mk("simple3", vec![ss.clone(), ss.clone(), ss.clone()]));
        v.push(mk("any1;any1", vec![a1.clone(), a1.clone()]));
        v.push(mk("simple;compound2", vec![ss.clone(), comp2.clone()]));
        v.push(mk("compound2;simple", vec![comp2.clone(), ss.clone()]));
        v.push(mk("core;core;compound1", vec![core.clone(), core.clone(), comp1.clone()]));
        v.push(mk("core;compound1;core", vec![core.clone(), comp1.clone(), core.clone()]));
        v.push(mk("compound1;core;core", vec![comp1.clone(), core.clone(), core.clone()]));
    }
    v
}

/// closed-form size of F-stmt from the alphabet sizes
fn stmt_formula(tier: Tier) -> u64 {
    let ss = simple_stmts().len() as u64;
    let core = core_stmts().len() as u64;
    let lb = loop_body_stmts(false).len() as u64;
    let lbj = loop_body_stmts(true).len() as u64;
    let pb = plain_body_stmts().len() as u64;
    let comp1 = lb + 3 * lbj + 5 * pb;
    let comp2 = lb * lb + 3 * lbj * lbj + 5 * pb * pb;
    let mut n = ss + ss * ss + comp1 + comp2 + 2 * core * comp1;
    if tier == Tier::Thorough {
        n += ss * ss * ss + (ss + comp1) * (ss + comp1) + 2 * ss * comp2 + 3 * core * core * comp1;
    }
    n
}

// ---------------------------------------------------------------- F-fn

fn named(items: &[(&str, &str)]) -> Vec<(String, String)> {
    items.iter().map(|(a, b)| (a.to_string(), b.to_string())).collect()
}

fn fn_strata(tier: Tier) -> Vec<Stratum> {
    let q = tier == Tier::Quick;
    let mut v = vec![];
    // expression-bodied functions, argument evaluation order, functions as values
    v.push(Stratum::new(
        "F-fn",
        "exprbody",
        "fn f@(x: int, y: int) -> int = $0\n$1",
        vec![
            sv(&["x - y", "(x * 2) + y", "if x > y {\nx\n} else {\ny\n}", "sub2(y, x)", "{\nlet t = x + 1\nt * y\n}", "tr(9, x) - tr(8, y)"]),
            sv(&[
                "vh_emit_int(f@(tr(1, 7), tr(2, 3)))",
                "vh_emit_int(f@(3, f@(1, 2)))",
                "let g = f@\nvh_emit_int(g(4, 5))",
                "vh_emit_int(f@(f@(tr(1, 1), 2), f@(3, tr(2, 4))))",
                "let w = (f@(2, 1), f@(1, 2))\nlet (w1, w2) = w\nvh_emit_int(w1)\nvh_emit_int(w2)",
            ]),
        ],
    ));
    // block bodies with early return from if / while / for / match arm
    v.push(Stratum::new(
        "F-fn",
        "earlyreturn",
        "fn g@(n: int) -> int {\n$0\nvh_emit_int(n)\nn * 2\n}\nvh_emit_int(g@($1))\nvh_emit_int(g@($1 + 1))",
        vec![
            sv(&[
                "if n < 3 {\nreturn 0 - 1\n}",
                "if n == 3 {\nreturn n\n}",
                "var k = 0\nwhile true {\nk += 1\nif k > n {\nreturn k\n}\n}",
                "for k in 10 {\nif k == n {\nreturn k * 100\n}\n}",
                "for k in [1, 2, 3] {\nvh_emit_int(k)\nif k == n {\nreturn k + 50\n}\n}",
                "if n > 2 {\nif n > 3 {\nreturn 44\n}\nvh_emit_int(1)\n}",
            ]),
            sv(&["2", "3", "4"]),
        ],
    ));
    // recursion with bounded depth
    v.push(Stratum::new(
        "F-fn",
        "recursion",
        "fn r@(n: int) -> int $0\nvh_emit_int(r@($1))",
        vec![
            sv(&[
                "= if n < 2 {\n1\n} else {\nn * r@(n - 1)\n}",
                "= if n < 2 {\nn\n} else {\nr@(n - 1) + r@(n - 2)\n}",
                "{\nvh_emit_int(n)\nif n == 0 {\nreturn 0\n}\nr@(n - 1) + 1\n}",
                "{\nif n == 0 {\nreturn 0\n}\nlet w = r@(n - 1)\nvh_emit_int(n)\nw + n\n}",
                "= match n {\n0 -> 0\n_ -> n + r@(n - 1)\n}",
                "{\nif n > 20 {\nreturn n\n}\nr@((n * 3) + 1)\n}",
            ]),
            sv(if q { &["0", "1", "5"] } else { &["0", "1", "2", "5", "9", "12"] }),
        ],
    ));
    v.push(Stratum::new(
        "F-fn",
        "mutualrec",
        "fn ev@(n: int) -> bool = if n == 0 {\ntrue\n} else {\nod@(n - 1)\n}\nfn od@(n: int) -> bool = if n == 0 {\nfalse\n} else {\nev@(n - 1)\n}\nvh_emit_bool(ev@($0))\nvh_emit_bool(od@($0))",
        vec![sv(&["0", "1", "4", "7"])],
    ));
    // lambdas: capture by value at creation; closures called twice
    let lam_tpl = "$0\n$1\nlet lam = $2\n$3\n$4\n$5\n$4\n$6";
    v.push(Stratum::new(
        "F-fn",
        "lambda-int-var",
        lam_tpl,
        vec![
            sv(&["var k = 10"]),
            sv(&["", "k = k + 1"]),
            sv(&["(y: int) -> y + k", "(y: int) -> {\nlet t = y + k\nt * 2\n}", "y -> y + k"]),
            sv(&["", "k = k + 5", "k += 1"]),
            sv(&["vh_emit_int(lam(1))", "vh_emit_int(apply(lam, 1))", "vh_emit_int(twice(lam, 1))"]),
            sv(&["", "k = 100"]),
            sv(&["vh_emit_int(k)"]),
        ],
    ));
    v.push(Stratum::new(
        "F-fn",
        "lambda-int-let-shadow",
        lam_tpl,
        vec![
            sv(&["let k = 10"]),
            sv(&[""]),
            sv(&["(y: int) -> y + k", "(y: int) -> {\nlet t = y + k\nt * 2\n}", "(y: int) -> {\nlet k = y * k\nk + 1\n}"]),
            sv(&["", "let k = k + 5"]),
            sv(&["vh_emit_int(lam(1))", "vh_emit_int(apply(lam, 1))", "vh_emit_int(twice(lam, 1))"]),
            sv(&["", "let k = 100"]),
            sv(&["vh_emit_int(k)"]),
        ],
    ));
    v.push(Stratum::new(
        "F-fn",
        "lambda-array",
        lam_tpl,
        vec![
            sv(&["var k = [1, 2]"]),
            sv(&["", "k.push(3)"]),
            sv(&["(y: int) -> y + k.len()", "(y: int) -> y + k[0]", "(y: int) -> {\nk.push(y)\nk.len()\n}"]),
            sv(&["", "k.push(9)", "k[0] = 50", "k = [7, 8, 9]"]),
            sv(&["vh_emit_int(lam(1))", "vh_emit_int(apply(lam, 1))", "vh_emit_int(twice(lam, 1))"]),
            sv(&["", "k.push(4)"]),
            sv(&["vh_emit_arr(k)"]),
        ],
    ));
    v.push(Stratum::new(
        "F-fn",
        "lambda-struct",
        lam_tpl,
        vec![
            sv(&["var k = St(1, \"x\")"]),
            sv(&[""]),
            sv(&["(y: int) -> y + k.a", "(y: int) -> {\nk.a = k.a + y\nk.a\n}"]),
            sv(&["", "k.a = 40", "k = St(70, \"z\")"]),
            sv(&["vh_emit_int(lam(1))", "vh_emit_int(apply(lam, 1))", "vh_emit_int(twice(lam, 1))"]),
            sv(&["", "k.a += 1"]),
            sv(&["vh_emit_int(k.a)"]),
        ],
    ));
    v.push(Stratum::new(
        "F-fn",
        "lambda-string",
        lam_tpl,
        vec![
            sv(&["var k = \"ab\""]),
            sv(&["", "k = k .. \"?\""]),
            sv(&["(y: int) -> k .. y", "(y: int) -> {\nlet t = (k .. \"-\") .. y\nt\n}"]),
            sv(&["", "k = k .. \"!\""]),
            sv(&["vh_emit_str(lam(1))"]),
            sv(&["", "k = \"\""]),
            sv(&["vh_emit_str(k)"]),
        ],
    ));
    // functions as values
    v.push(
        Stratum::new(
            "F-fn",
            "fnvalues",
            "let p = vh_next_int() > 0\nlet g = $0\n$1",
            vec![
                sv(&["dbl", "(y: int) -> y * 3", "mk(3)", "if p {\ndbl\n} else {\ninc\n}", "if not p {\ndbl\n} else {\n(y: int) -> y - 1\n}", "{\nlet z = 5\n(y: int) -> y + z\n}"]),
                sv(&[
                    "vh_emit_int(g(4))",
                    "vh_emit_int(apply(g, 4))",
                    "vh_emit_int(twice(g, 4))",
                    "let (h, n) = (g, 1)\nvh_emit_int(h(4) + n)",
                    "let fs = [g, inc]\nlet h = fs[0]\nvh_emit_int(h(4))\nlet h2 = fs[1]\nvh_emit_int(h2(4))",
                    "vh_emit_int(g(g(1)))",
                    "let h = g\nvh_emit_int(h(2) + g(3))",
                    "vh_emit_int(g(tr(1, 2)) + g(tr(2, 3)))",
                ]),
            ],
        )
        .inputs(&[1]),
    );
    v.push(Stratum::list(
        "F-fn",
        "misc",
        named(&[
            ("two-param lambda, traced args", "let f2 = (u: int, w: int) -> u - w\nvh_emit_int(f2(tr(1, 9), tr(2, 4)))"),
            ("zero-arg lambda called twice", "var n = 3\nlet z = () -> n * 2\nn = 10\nvh_emit_int(z())\nvh_emit_int(z())\nvh_emit_int(n)"),
            ("lambda calling named functions", "let f = (y: int) -> dbl(y) + inc(y)\nvh_emit_int(f(5))\nvh_emit_int(f(6))"),
            ("lambdas created in a loop capture the iteration's value", "let fs = [inc]\nfor i in 3 {\nfs.push((y: int) -> y + (i * 10))\n}\nfor f in fs {\nvh_emit_int(f(1))\n}"),
            ("lambda called in a loop", "var total = 0\nlet sq = (y: int) -> y * y\nfor i in 4 {\ntotal += sq(i)\n}\nvh_emit_int(total)"),
            ("lambda returning a tuple", "let f = (y: int) -> (y, y + 1)\nlet (u, w) = f(3)\nvh_emit_int(u)\nvh_emit_int(w)"),
            ("lambda with if body", "let f = (y: int) -> if y > 2 {\ny\n} else {\n0 - y\n}\nvh_emit_int(f(1))\nvh_emit_int(f(5))"),
            ("lambda mutating an array parameter", "let f = (a: array<int>) -> a.push(a.len())\nlet xs = [9]\nf(xs)\nf(xs)\nvh_emit_arr(xs)"),
            ("lambda passed directly", "vh_emit_int(apply((y: int) -> y - 1, 10))\nvh_emit_int(twice((y: int) -> y * y, 3))"),
            ("void lambda", "let e = (y: int) -> vh_emit_int(y)\ne(3)\ne(4)"),
            ("lambda using another closure", "var m = 2\nlet a1 = (y: int) -> y + m\nm = 50\nlet a2 = (y: int) -> a1(y) * m\nm = 1000\nvh_emit_int(a2(1))\nvh_emit_int(a1(1))"),
            ("closure returned by a function, called twice", "let a3 = mk(3)\nlet a4 = mk(4)\nvh_emit_int(a3(1))\nvh_emit_int(a4(1))\nvh_emit_int(a3(a4(0)))"),
            ("recursion with accumulator array", "fn fill@(a: array<int>, n: int) -> void {\nif n == 0 {\nreturn\n}\na.push(n)\nfill@(a, n - 1)\n}\nlet xs = [0]\nfill@(xs, 3)\nvh_emit_arr(xs)"),
            ("void function with bare return", "fn lg@(n: int) -> void {\nif n > 1 {\nreturn\n}\nvh_emit_int(n)\n}\nlg@(1)\nlg@(2)\nlg@(0)"),
            ("function returning tuple and struct", "fn two@(n: int) -> (int, St) = (n, St(n + 1, \"s\"))\nlet (u, s) = two@(4)\nvh_emit_int(u + s.a)\nvh_emit_str(s.b)"),
            ("argument order with three traced arguments", "fn three@(a: int, b: int, c: int) -> int = (a * 100) + ((b * 10) + c)\nvh_emit_int(three@(tr(1, 1), tr(2, 2), tr(3, 3)))"),
            ("parameter shadowed by local", "fn sh@(n: int) -> int {\nlet n = n + 1\nvar m = n\n{\nlet n = 100\nm += n\n}\nm + n\n}\nvh_emit_int(sh@(1))"),
            ("params are by value for ints, by reference for arrays", "fn md@(n: int, a: array<int>) -> void {\nvar n2 = n\nn2 += 1\na.push(n2)\n}\nvar k = 1\nlet xs = [0]\nmd@(k, xs)\nmd@(k, xs)\nvh_emit_int(k)\nvh_emit_arr(xs)"),
            ("lambda error inside", "let f = (y: int) -> 10 / y\nvh_emit_int(f(2))\nvh_emit_int(f(0))\nvh_emit_int(f(1))"),
            ("deep recursion 60", "fn dn@(n: int) -> int = if n == 0 {\n0\n} else {\n1 + dn@(n - 1)\n}\nvh_emit_int(dn@(60))"),
        ]),
    ));
    v
}

// ---------------------------------------------------------------- F-data

fn data_strata(tier: Tier) -> Vec<Stratum> {
    let q = tier == Tier::Quick;
    let mut v = vec![];
    let arr_alias = sv(&[
        "let q = p",
        "let q = ida(p)",
        "let h = (p, 0)\nlet (q, _) = h",
        "let h = Hold(p, 0)\nlet q = h.arr",
        "let h = [p, p]\nlet q = h[1]",
        "let q = {\np\n}",
        "let lamq = () -> p\nlet q = lamq()",
    ]);
    let arr_ops = sv(&["", "p.push(9)", "q.push(8)", "p[0] = 5", "q[1] = 6", "vh_emit_int(p.pop())", "vh_emit_int(q.pop())", "q[0] += 10", "push7(q)", "p[1] *= 3"]);
    let arr_tpl = "let p = [1, 2]\n$0\n$1\n$2\nvh_emit_arr(p)\nvh_emit_arr(q)";
    if q {
        v.push(Stratum::new("F-data", "alias-array-1op", arr_tpl, vec![arr_alias.clone(), arr_ops.clone(), sv(&[""])]));
        v.push(Stratum::new("F-data", "alias-array-2ops", arr_tpl, vec![sv(&["let q = p"]), arr_ops[1..].to_vec(), arr_ops[1..].to_vec()]));
    } else {
        v.push(Stratum::new("F-data", "alias-array", arr_tpl, vec![arr_alias.clone(), arr_ops.clone(), arr_ops.clone()]));
    }
    let st_alias = sv(&["let q = p", "let q = ids(p)", "let h = (p, 0)\nlet (q, _) = h", "let h = Outer(p, 0)\nlet q = h.inner", "let h = [p, p]\nlet q = h[0]"]);
    let st_ops = sv(&["", "p.a = 5", "q.a += 2", "q.b = \"y\"", "seta(q, 9)", "p.a *= 3"]);
    let st_tpl = "let p = St(1, \"x\")\n$0\n$1\n$2\nvh_emit_int(p.a)\nvh_emit_int(q.a)\nvh_emit_str(p.b .. q.b)";
    if q {
        v.push(Stratum::new("F-data", "alias-struct-1op", st_tpl, vec![st_alias.clone(), st_ops.clone(), sv(&[""])]));
        v.push(Stratum::new("F-data", "alias-struct-2ops", st_tpl, vec![sv(&["let q = p"]), st_ops[1..].to_vec(), st_ops[1..].to_vec()]));
    } else {
        v.push(Stratum::new("F-data", "alias-struct", st_tpl, vec![st_alias.clone(), st_ops.clone(), st_ops.clone()]));
    }
    // void stored in data structures
    v.push(Stratum::list(
        "F-data",
        "void",
        named(&[
            ("array of nil: len, push, pop, index", "let u = [nil, nil]\nvh_emit_int(u.len())\nu.push(nil)\nlet w = u.pop()\nprintln(w)\nvh_emit_int(u.len())\nprintln(u[0])\nprintln(u)"),
            ("array of nil: index assignment and out-of-bounds", "let u = [nil]\nu[0] = nil\nvh_emit_int(u.len())\nprintln(u[1])"),
            ("array of nil: pop to empty then once more", "let u = [nil]\nu.pop()\nvh_emit_int(u.len())\nu.pop()\nvh_emit_int(5)"),
            ("empty array of void grows", "let u: array<void> = []\nu.push(nil)\nu.push(vf())\nvh_emit_int(u.len())\nprintln(u)"),
            ("array from void calls", "let us = [vf(), vf()]\nvh_emit_int(us.len())\nvh_emit_int(tv(us[1]))"),
            ("for over array of nil", "var n = 0\nfor w in [nil, nil, nil] {\nn += tv(w)\n}\nvh_emit_int(n)"),
            ("tuple with nil in the middle", "let t = (1, nil, \"x\")\nlet (a, b, c) = t\nvh_emit_int(a)\nprintln(b)\nvh_emit_str(c)\nprintln(t)"),
            ("tuple with nil first and last", "let t = (nil, 7, nil)\nlet (a, b, c) = t\nvh_emit_int(b)\nprintln(a)\nprintln(c)\nprintln(t)"),
            ("tuple of two nils", "let t = (nil, nil)\nprintln(t)\nlet (t1, t2) = t\nprintln(t2)"),
            ("array of tuples with nil", "let ats = [(1, nil), (2, nil)]\nprintln(ats)\nlet (n2, v2) = ats[1]\nvh_emit_int(n2)\nprintln(v2)"),
            ("struct with void field: construct, read, write", "let s = Sv(1, nil, \"x\")\ns.v = nil\ns.a = 4\ns.b = \"y\"\nvh_emit_int(s.a)\nvh_emit_str(s.b)\nprintln(s.v)"),
            ("struct with void field: pattern", "let s = Sv(2, nil, \"z\")\nlet Sv(x, _, z) = s\nvh_emit_int(x)\nvh_emit_str(z)"),
            ("struct with void field: field after void is updated by compound assignment", "let s = Sv(2, nil, \"z\")\ns.b = s.b .. \"!\"\ns.a += 5\nvh_emit_int(s.a)\nvh_emit_str(s.b)"),
            ("result with void ok", "let r: result<void, string> = result.ok(nil)\nprintln(r)\nvh_emit_bool(r.is_ok())"),
            ("void variable and void function result", "let u = vf()\nlet w = u\nprintln(w)\nvh_emit_int(tv(u))"),
            ("void parameter between ints", "fn mid@(a: int, u: void, b: int) -> int = a - b\nvh_emit_int(mid@(tr(1, 9), vf(), tr(2, 4)))"),
            ("void in nested tuple", "let t = ((1, nil), (nil, 2))\nlet ((a, _), (_, b)) = t\nvh_emit_int(a + b)\nprintln(t)"),
            ("nil equality", "let u = nil\nvh_emit_bool(u == nil)\nvh_emit_bool([nil] == [nil])\nvh_emit_bool((1, nil) == (1, nil))"),
            ("block without trailing expression is nil", "let u = {\nlet z = 1\n}\nprintln(u)"),
            ("if without else is nil", "let x = vh_next_int()\nlet u = if x > 100 {\nvh_emit_int(1)\n}\nprintln(u)"),
            ("void lambda result stored", "let f = (y: int) -> vh_emit_int(y)\nlet us = [f(1), f(2)]\nvh_emit_int(us.len())"),
        ]),
    ).inputs(&[5]));
    // tuples, enums, nested containers, destructuring
    v.push(Stratum::list(
        "F-data",
        "values",
        named(&[
            ("nested tuple destructuring", "let ((a, b), c) = ((1, 2), 3)\nvh_emit_int((a * 100) + ((b * 10) + c))"),
            ("tuple holds a snapshot of an int variable", "var n = 1\nlet t = (n, n + 1)\nn = 50\nlet (a, b) = t\nvh_emit_int(a)\nvh_emit_int(b)\nvh_emit_int(n)"),
            ("tuple reassigned", "var t = (1, \"a\")\nlet u = t\nt = (2, \"b\")\nlet (a, s) = u\nlet (b, r) = t\nvh_emit_int(a + b)\nvh_emit_str(s .. r)"),
            ("struct pattern let", "let St(n, s) = St(4, \"w\")\nvh_emit_int(n)\nvh_emit_str(s)"),
            ("struct holding array: alias through field", "let xs = [1]\nlet h = Hold(xs, 0)\nh.arr.push(2)\nxs.push(3)\nh.n = h.arr.len()\nvh_emit_arr(xs)\nvh_emit_int(h.n)"),
            ("nested struct mutation through outer", "let p = St(1, \"x\")\nlet o = Outer(p, 0)\no.inner.a = 7\no.k += 1\nvh_emit_int(p.a)\nvh_emit_int(o.k)"),
            ("array of arrays: rows are shared references", "let row = [1]\nlet m = [row, row, [5]]\nm[0].push(2)\nvh_emit_arr(m[1])\nvh_emit_arr(row)\nm[2][0] = 6\nvh_emit_arr(m[2])\nvh_emit_int(m.len())"),
            ("array element copy of int is a value", "let a = [1, 2]\nvar e = a[0]\ne += 10\nvh_emit_int(e)\nvh_emit_arr(a)"),
            ("array of structs shares the structs", "let s = St(1, \"x\")\nlet a = [s, St(2, \"y\")]\na[0].a = 9\nvh_emit_int(s.a)\nlet t = a[1]\nt.b = \"q\"\nvh_emit_str(a[1].b)"),
            ("enum values are immutable values", "var e = En.Bb(4)\nlet f = e\ne = En.Aa\nvh_emit_int(match f {\n.Bb(n) -> n\n_ -> 0\n})\nvh_emit_int(match e {\n.Aa -> 1\n_ -> 0\n})"),
            ("enum with array payload shares the array", "let xs = [1]\nlet o = option.some(xs)\nxs.push(2)\nmatch o {\n.some(a) -> vh_emit_arr(a)\n.none -> vh_emit_int(0)\n}"),
            ("tuple with array shares the array", "let xs = [1]\nlet t = (xs, 5)\nlet (ys, _) = t\nys.push(2)\nvh_emit_arr(xs)"),
            ("struct equality of fields", "let s = St(1, \"x\")\nlet t = St(1, \"x\")\nvh_emit_bool(s.a == t.a)\nvh_emit_bool(s.b == t.b)"),
            ("tuple equality and array equality", "vh_emit_bool((1, \"a\") == (1, \"a\"))\nvh_emit_bool((1, \"a\") == (2, \"a\"))\nvh_emit_bool([1, 2] == [1, 2])\nvh_emit_bool([1, 2] == [1])\nvh_emit_bool([1, 2] != [1, 3])"),
            ("string values", "var s = \"ab\"\nlet t = s\ns = s .. \"c\"\nvh_emit_str(s)\nvh_emit_str(t)\nvh_emit_bool(s == (t .. \"c\"))\nvh_emit_bool(t < s)"),
            ("println of nested values", "println([(1, \"a\"), (2, \"\")])\nprintln((true, [1, 2], option.some(3)))\nprint(5)\nprint(\"x\")\nprintln(nil)"),
            ("for with tuple pattern", "for (a, b) in [(1, 10), (2, 20)] {\nvh_emit_int(a + b)\n}"),
            ("var tuple destructuring is mutable", "var (a, b) = (1, 2)\na += b\nb = a * 2\nvh_emit_int(a)\nvh_emit_int(b)"),
            ("array built in loop", "let a = [0]\nfor i in range(1, 4) {\na.push(a[i - 1] + i)\n}\nvh_emit_arr(a)"),
            ("bool ops and comparisons of strings", "vh_emit_bool(\"a\" < \"b\")\nvh_emit_bool(\"\" < \"a\")\nvh_emit_bool(\"ab\" >= \"b\")\nvh_emit_bool(\"a\" != \"a\")"),
        ]),
    ));
    // option / result
    v.push(Stratum::new(
        "F-data",
        "option",
        "let o: option<int> = $0\n$1",
        vec![
            sv(&["option.some(5)", "option.none", ".some(0)", "mayb(1)", "mayb(2)"]),
            sv(&[
                "vh_emit_bool(o.is_some())",
                "vh_emit_bool(o.is_none())",
                "vh_emit_int(o!)",
                "println(o)",
                "vh_emit_int(match o {\n.some(n) -> n\n.none -> 0 - 1\n})",
                "vh_emit_int(tr(1, 1) + o!)",
                "vh_emit_str(\"v=\" .. o)",
            ]),
        ],
    ));
    v.push(Stratum::new(
        "F-data",
        "result",
        "let r: result<int, string> = $0\n$1",
        vec![
            sv(&["result.ok(5)", "result.err(\"bad\")", ".ok(0)", ".err(\"\")"]),
            sv(&[
                "vh_emit_bool(r.is_ok())",
                "vh_emit_bool(r.is_err())",
                "vh_emit_int(r!)",
                "println(r)",
                "vh_emit_int(match r {\n.ok(n) -> n\n.err(_) -> 0 - 1\n})",
                "vh_emit_str(\"r=\" .. r)",
            ]),
        ],
    ));
    v.push(Stratum::new(
        "F-data",
        "try-option",
        "fn q@(i: int) -> option<int> {\nlet w = $0\nvh_emit_int(w)\noption.some(w + 1)\n}\nprintln(q@($1))",
        vec![sv(&["mayb(i)?", "mayb(i)? + 10", "tr(1, 10) + mayb(i)?", "sub2(mayb(i)?, tr(2, 1))", "if i > 0 {\nmayb(i)?\n} else {\n0\n}"]), sv(&["1", "2", "0"])],
    ));
    v.push(Stratum::new(
        "F-data",
        "try-result",
        "fn rr@(i: int) -> result<int, string> = if i > 1 {\nresult.ok(i)\n} else {\nresult.err(\"small\")\n}\nfn q@(i: int) -> result<int, string> {\nlet w = $0\nvh_emit_int(w)\nresult.ok(w + 1)\n}\nprintln(q@($1))",
        vec![sv(&["rr@(i)?", "rr@(i)? + 10", "tr(1, 10) + rr@(i)?", "sub2(rr@(i)?, rr@(i - 1)?)"]), sv(&["1", "2", "3"])],
    ));
    // array indexing / methods, including the documented out-of-bounds error
    let mut idx_items: Vec<(String, String)> = vec![];
    for i in ["0 - 1", "0", "1", "2", "3"] {
        idx_items.push((format!("read a[{i}]"), format!("vh_emit_int(a[{i}])")));
        idx_items.push((format!("write a[{i}]"), format!("a[{i}] = 7")));
        idx_items.push((format!("compound a[{i}]"), format!("a[{i}] += 1")));
        idx_items.push((format!("read a[i] with i = {i} from a variable"), format!("let i = ({i}) + (vh_next_int() - 5)\nvh_emit_int(a[i])")));
    }
    for (n, t) in [
        ("pop once", "vh_emit_int(a.pop())"),
        ("pop twice", "vh_emit_int(a.pop())\nvh_emit_int(a.pop())"),
        ("pop three times", "vh_emit_int(a.pop())\nvh_emit_int(a.pop())\nvh_emit_int(a.pop())\nvh_emit_int(1)"),
        ("pop in statement position", "a.pop()\na.pop()\nvh_emit_int(a.len())"),
        ("push then index", "a.push(30)\nvh_emit_int(a[2])"),
        ("len and is_empty", "vh_emit_int(a.len())\nvh_emit_bool(a.is_empty())"),
        ("for over array", "for w in a {\nvh_emit_int(w)\n}"),
        ("println", "println(a)\nprintln([a, a])\nprintln([\"p\", \"\"])"),
        ("equality with alias and copy", "vh_emit_bool(a == [10, 20])\nvh_emit_bool(a == ida(a))"),
        ("empty literal with annotation", "let e: array<int> = []\nvh_emit_int(e.len())\ne.push(1)\nvh_emit_arr(e)"),
        ("array of strings", "let ss = [\"p\", \"q\"]\nss.push(\"r\")\nvh_emit_str(ss[2] .. ss[0])\nvh_emit_int(ss.len())"),
        ("index with traced subexpressions", "vh_emit_int(a[tr(1, 0)] + a[tr(2, 1)])"),
        ("nested index", "let m = [a, [1]]\nm[0].push(3)\nvh_emit_int(m[0][2])\nvh_emit_int(m[1].len())\nvh_emit_int(m[1][1])"),
    ] {
        idx_items.push((n.to_string(), t.to_string()));
    }
    let idx_items: Vec<(String, String)> = idx_items.into_iter().map(|(n, t)| (n, format!("let a = [10, 20]\n{t}\nvh_emit_arr(a)"))).collect();
    v.push(Stratum::list("F-data", "array-index", idx_items).inputs(&[5]));
    v
}

// ---------------------------------------------------------------- F-match

fn match_forms(scrut: &str, pre: &str) -> Vec<String> {
    vec![
        format!("{pre}\nlet r = match {scrut} {{\n$1\n}}\nvh_emit_int(r)"),
        format!("{pre}\nvh_emit_int(tr(1, 1) + (match {scrut} {{\n$1\n}}))"),
        format!("{pre}\nvh_emit_int(sub2(match {scrut} {{\n$1\n}}, tr(1, 1)))"),
        format!("fn mm@() -> int {{\n{pre}\nmatch {scrut} {{\n$1\n}}\n}}\nvh_emit_int(mm@())"),
    ]
}

fn match_strata(_tier: Tier) -> Vec<Stratum> {
    let forms = |scrut: &str| -> Vec<String> {
        vec![
            format!("let r = match {scrut} {{\n$1\n}}\nvh_emit_int(r)"),
            format!("vh_emit_int(tr(1, 1) + (match {scrut} {{\n$1\n}}))"),
            format!("vh_emit_int(sub2(match {scrut} {{\n$1\n}}, tr(1, 1)))"),
            format!("fn mm@() -> int {{\n$PRE\nmatch {scrut} {{\n$1\n}}\n}}\nvh_emit_int(mm@())"),
        ]
    };
    let mut v = vec![];
    // the scrutinee is computed from a host input so that nothing can be decided at compile time
    let mk = |name: &str, pre: &str, scrut: &str, arms: &[&str], vals: &[&str]| {
        let fs: Vec<String> = forms(scrut).into_iter().map(|f| if f.contains("$PRE") { f.replace("$PRE", pre) } else { format!("{pre}\n{f}") }).collect();
        Stratum::new("F-match", name, "$0", vec![fs, sv(arms), sv(vals)]).inputs(&[0, 0])
    };
    v.push(mk(
        "int",
        "let x = $2 + vh_next_int()",
        "x",
        &["0 -> 10\n1 -> 11\n_ -> 99", "7 -> 1\nn -> n + 1", "_ -> 5", "2 -> {\nvh_emit_int(22)\n2\n}\n_ -> 0"],
        &["0", "1", "2", "7"],
    ));
    v.push(mk("bool", "let x = ($2 + vh_next_int()) > 1", "x", &["true -> 1\nfalse -> 0", "false -> 0\n_ -> 1", "w -> if w {\n5\n} else {\n6\n}"], &["0", "2"]));
    v.push(mk(
        "option",
        "let k = vh_next_int()\nlet j = k + 77\nlet o: option<int> = $2",
        "o",
        &[".some(0) -> 100\n.some(n) -> n\n.none -> 0 - 1", ".none -> 0\n.some(n) -> n * 2", ".some(_) -> 1\n_ -> 2", "_ -> 3", ".some(j) -> j\n.none -> j + 1000", ".none -> j + 1000\n.some(j) -> j + 1"],
        &["option.some(5 + k)", "option.some(k)", "option.none", "mayb(k)", "mayb(k + 1)"],
    ));
    v.push(mk(
        "result",
        "let k = vh_next_int()\nlet r: result<int, string> = $2",
        "r",
        &[".ok(n) -> n\n.err(_) -> 0 - 1", ".err(m) -> {\nvh_emit_str(m)\n0\n}\n.ok(n) -> n + 1", ".ok(0) -> 9\n_ -> 8"],
        &["result.ok(5 + k)", "result.ok(k)", "result.err(\"e\")"],
    ));
    v.push(mk(
        "enum",
        "let k = vh_next_int()\nlet j = k + 77\nlet e = $2",
        "e",
        &[
            ".Aa -> 0\n.Bb(n) -> n\n.Cc(n, _) -> n + 100\n.Dd(_) -> 9",
            ".Bb(0) -> 50\n.Bb(n) -> n\n_ -> 1",
            ".Cc(n, t) -> {\nvh_emit_str(t)\nn\n}\n_ -> 7",
            ".Dd(_) -> 1\n.Aa -> 2\n_ -> 3",
            ".Cc(2, \"z\") -> 1\n.Cc(_, \"z\") -> 2\n.Cc(n, _) -> n\n_ -> 4",
            ".Bb(j) -> j\n.Cc(n, _) -> n + (j * 1000)\n_ -> j + 7000",
        ],
        &["En.Aa", "En.Bb(4 + k)", "En.Bb(k)", "En.Cc(2 + k, \"z\")", "En.Cc(3, \"y\" .. k)"],
    ));
    v.push(mk(
        "tuple",
        "let k = vh_next_int()\nlet j = k + 77\nlet t = ($2)",
        "t",
        &["(0, _) -> 0\n(n, true) -> n + 10\n(n, false) -> n + 20", "(_, true) -> 1\n(n, _) -> n", "(n, b) -> if b {\nn\n} else {\n0 - n\n}", "w -> {\nlet (n, _) = w\nn\n}", "(3, true) -> 1\n(3, false) -> 2\n(_, _) -> 3", "(0, _) -> j + 40\n(j, true) -> j + 10\n(n, false) -> n + (j * 1000)"],
        &["k, true", "k, false", "3 + k, k == 0", "3 + k, k > 0"],
    ));
    v.push(Stratum::list(
        "F-match",
        "misc",
        named(&[
            ("option of tuple", "let o = option.some((1 + vh_next_int(), 2))\nvh_emit_int(match o {\n.some((a, b)) -> a - b\n.none -> 0\n})"),
            ("tuple of options", "let t = (mayb(1), mayb(2))\nvh_emit_int(match t {\n(.some(a), .some(b)) -> a + b\n(.some(a), .none) -> a + 10\n(.none, _) -> 0\n})"),
            ("string match", "for s in [\"a\", \"\", \"b\"] {\nvh_emit_int(match s {\n\"a\" -> 1\n\"\" -> 2\n_ -> 3\n})\n}"),
            ("struct pattern match", "for s in [St(1, \"x\"), St(2, \"y\"), St(2, \"x\")] {\nvh_emit_int(match s {\nSt(1, _) -> 1\nSt(n, \"y\") -> n + 10\nSt(n, _) -> n + 20\n})\n}"),
            ("match as statement with void arms", "for i in 3 {\nmatch i {\n0 -> vh_emit_int(10)\n1 -> {\nvh_emit_int(11)\nvh_emit_int(12)\n}\n_ -> vh_emit_int(13)\n}\n}"),
            ("arm binding shadows outer variable", "let n = 100\nlet o = option.some(1 + vh_next_int())\nvh_emit_int(match o {\n.some(n) -> n + 1\n.none -> n\n})\nvh_emit_int(n)"),
            ("match arm with break and continue in a loop", "for i in 6 {\nmatch i {\n1 -> {\ncontinue\n}\n4 -> {\nbreak\n}\n_ -> vh_emit_int(i)\n}\nvh_emit_int(100 + i)\n}"),
            ("match arm with return", "fn fr@(o: option<int>) -> int {\nlet w = match o {\n.some(n) -> n\n.none -> {\nreturn 0 - 1\n}\n}\nvh_emit_int(w)\nw * 2\n}\nvh_emit_int(fr@(option.some(4)))\nvh_emit_int(fr@(option.none))"),
            ("match on nil", "let u = vf()\nvh_emit_int(match u {\nnil -> 1\n})"),
            ("match in match arm", "for i in 3 {\nvh_emit_int(match i {\n0 -> 0\nn -> match n {\n1 -> 10\n_ -> 20\n}\n})\n}"),
            ("match scrutinee with traced calls", "vh_emit_int(match (tr(1, 2) + tr(2, 3)) {\n5 -> tr(3, 50)\n_ -> tr(4, 0)\n})"),
            ("match result of function call", "for i in 3 {\nvh_emit_int(match mayb(i) {\n.some(w) -> w + i\n.none -> 0 - i\n})\n}"),
            ("enum bound then matched twice", "let e = En.Cc(1 + vh_next_int(), \"q\")\nlet a = match e {\n.Cc(n, _) -> n\n_ -> 0\n}\nlet b = match e {\n.Cc(_, s) -> s\n_ -> \"\"\n}\nvh_emit_int(a)\nvh_emit_str(b)"),
        ]),
    ).inputs(&[0]));
    v
}

// ---------------------------------------------------------------- S-jump

pub const JUMP_ROOT_KEY: &str = "root:jump-out-of-operand";

/// operand positions: (name, expression with `$B` = int-valued jump block / `$C` = bool-valued jump
/// block, expression extracting an int from `t`)
fn jump_positions() -> Vec<(&'static str, &'static str, &'static str)> {
    vec![
        ("binop-right", "tr(1, 10) + $B", "t"),
        ("binop-left", "$B + tr(3, 10)", "t"),
        ("call-arg0", "sub2($B, tr(3, 10))", "t"),
        ("call-arg1", "sub2(tr(1, 10), $B)", "t"),
        ("array-elem0", "[$B, tr(3, 10)]", "t[0] + t[1]"),
        ("array-elem1", "[tr(1, 10), $B]", "t[0] + t[1]"),
        ("tuple-elem0", "($B, tr(3, 10))", "match t {\n(u, w) -> u + w\n}"),
        ("tuple-elem1", "(tr(1, 10), $B)", "match t {\n(u, w) -> u + w\n}"),
        ("struct-arg0", "Pt($B, tr(3, 10))", "t.x + t.y"),
        ("struct-arg1", "Pt(tr(1, 10), $B)", "t.x + t.y"),
        ("if-condition", "if $C {\ntr(4, 1)\n} else {\ntr(5, 2)\n}", "t"),
        ("if-condition-under-binop", "tr(1, 10) + (if $C {\ntr(4, 1)\n} else {\ntr(5, 2)\n})", "t"),
        ("match-scrutinee", "match $B {\n1 -> tr(4, 5)\n_ -> tr(5, 6)\n}", "t"),
        ("match-scrutinee-under-binop", "tr(1, 10) + (match $B {\n1 -> tr(4, 5)\n_ -> tr(5, 6)\n})", "t"),
        ("index", "arr3[$B]", "t"),
        ("variant-arg", "option.some($B)", "t!"),
        ("comparison-left", "$B < tr(3, 10)", "if t {\n1\n} else {\n0\n}"),
        ("and-right", "trb(1, true) and $C", "if t {\n1\n} else {\n0\n}"),
        ("concat-right", "trs(1, \"s\") .. $B", "if t == \"s1\" {\n1\n} else {\n0\n}"),
        ("nested-two-pending", "tr(1, 10) + (tr(3, 20) + $B)", "t"),
    ]
}

fn jump_strata(_tier: Tier) -> Vec<Stratum> {
    let mut v = vec![];
    for (jname, jstmt) in [("break", "break"), ("continue", "continue"), ("return", "return $RV"), ("try", "")] {
        let (blk_i, blk_b) = if jname == "try" {
            ("{\nmayb(i)? + tr(2, 0)\n}".to_string(), "{\n(mayb(i)? + tr(2, 0)) > 0\n}".to_string())
        } else {
            (format!("{{\nif (i % 2) == 0 {{\n{jstmt}\n}}\ntr(2, 1)\n}}"), format!("{{\nif (i % 2) == 0 {{\n{jstmt}\n}}\ntrb(2, true)\n}}"))
        };
        let (rt, ret_of, call, rv) = if jname == "try" {
            ("option<int>", "option.some($V)", "println(sj@(5))", "")
        } else {
            ("int", "$V", "vh_emit_int(sj@(5))", "99")
        };
        let blk_i = blk_i.replace("$RV", rv);
        let blk_b = blk_b.replace("$RV", rv);
        let loop_body = |pos: &str, ext: &str| format!("i += 1\nlet t = {}\nacc += {}", pos.replace("$B", &blk_i).replace("$C", &blk_b), ext);
        // wrappers
        let mut wrappers: Vec<(&str, String, bool)> = vec![
            (
                "fn-while",
                format!("fn sj@(n: int) -> {rt} {{\nvar i = 0\nvar acc = 0\nlet arr3 = [5, 6, 7]\nwhile i < n {{\n$L\n}}\nvh_emit_int(acc)\n{}\n}}\n{call}", ret_of.replace("$V", "acc")),
                false,
            ),
            (
                "fn-while-inside-operand",
                format!(
                    "fn sj@(n: int) -> {rt} {{\nlet r = tr(7, 100) + {{\nvar i = 0\nvar acc = 0\nlet arr3 = [5, 6, 7]\nwhile i < n {{\n$L\n}}\nacc\n}}\nvh_emit_int(r)\n{}\n}}\n{call}",
                    ret_of.replace("$V", "r")
                ),
                false,
            ),
            (
                "fn-for",
                format!("fn sj@(n: int) -> {rt} {{\nvar acc = 0\nlet arr3 = [5, 6, 7]\nfor j in n {{\nvar i = j\n$L\n}}\nvh_emit_int(acc)\n{}\n}}\n{call}", ret_of.replace("$V", "acc")),
                false,
            ),
        ];
        if jname == "break" || jname == "continue" {
            wrappers.push(("top-level-while", "let n = vh_next_int()\nvar i = 0\nvar acc = 0\nlet arr3 = [5, 6, 7]\nwhile i < n {\n$L\n}\nvh_emit_int(acc)".to_string(), true));
        }
        for (wname, wtext, top) in wrappers {
            let items: Vec<(String, String)> = jump_positions().iter().map(|(pn, pos, ext)| (format!("jump={jname} position={pn} context={wname}"), wtext.replace("$L", &loop_body(pos, ext)))).collect();
            let mut s = Stratum::list("S-jump", &format!("{jname}/{wname}"), items);
            if jname == "break" || jname == "continue" {
                s = s.key(&format!("{JUMP_ROOT_KEY}:{jname}"));
            }
            if top {
                s = s.top_level().inputs(&[5]);
            }
            v.push(s);
        }
    }
    v
}

// ---------------------------------------------------------------- S-empty

fn empty_strata(_tier: Tier) -> Vec<Stratum> {
    let mut items: Vec<(String, String)> = vec![];
    for (ty, val, emit) in [("int", "5", "vh_emit_int($)"), ("string", "\"s\"", "vh_emit_str($)"), ("void", "nil", "println($)")] {
        let inits: Vec<(&str, String)> = vec![
            ("empty literal", format!("let a: array<{ty}> = []")),
            ("singleton", format!("let a: array<{ty}> = [{val}]")),
            ("emptied by pop", format!("let a: array<{ty}> = [{val}]\na.pop()")),
        ];
        let e = |x: &str| emit.replace('$', x);
        let ops: Vec<(&str, String)> = vec![
            ("pop value used", e("a.pop()")),
            ("pop in statement position", "a.pop()".to_string()),
            ("pop twice", "a.pop()\na.pop()".to_string()),
            ("index 0 read", e("a[0]")),
            ("index 1 read", e("a[1]")),
            ("index 0 write", format!("a[0] = {val}")),
            ("remove 0", "a.remove(0)".to_string()),
            ("swap 0 0", "a.swap(0, 0)".to_string()),
            ("swap 0 1", "a.swap(0, 1)".to_string()),
            ("clear", "a.clear()".to_string()),
            ("clear twice then push", format!("a.clear()\na.clear()\na.push({val})")),
            ("sort", "a.sort()".to_string()),
            ("push then pop", format!("a.push({val})\n{}", e("a.pop()"))),
            ("for over it", format!("for w in a {{\n{}\n}}", e("w"))),
            ("is_empty", "vh_emit_bool(a.is_empty())".to_string()),
            ("contains / find", format!("vh_emit_bool(a.contains({val}))\nvh_emit_bool(a.find({val}).is_some())")),
            ("println", "println(a.len())".to_string()),
        ];
        for (iname, init) in &inits {
            for (oname, op) in &ops {
                items.push((format!("array<{ty}> {iname}: {oname}"), format!("{init}\n{op}\nvh_emit_int(a.len())")));
            }
        }
    }
    vec![Stratum::list("S-empty", "ops", items)]
}

// ---------------------------------------------------------------- S-voidvariant

pub const GENERIC_VOID_ROOT_KEY: &str = "root:generic-function-instantiated-with-void-result-returns-a-slot";
pub const VOID_PAYLOAD_ROOT_KEY: &str = "root:payload-pattern-on-all-void-variant-leaks-stack-slot";
pub const VOID_VARIANT_ROOT_KEY: &str = "root:pattern-on-variant-with-void-and-one-other-field";

/// Patterns on an enum variant whose payload has a `void` field next to exactly one non-void field.
/// Kept apart from F-data so that one defect cannot hide another.
fn voidvariant_strata(_tier: Tier) -> Vec<Stratum> {
    let mut items: Vec<(String, String)> = vec![];
    for (vn, val) in [("Va(int, void)", "Ev.Va(5 + k, nil)"), ("Vb(void, int)", "Ev.Vb(nil, 6 + k)"), ("Vc", "Ev.Vc")] {
        for (an, arms) in [
            ("bind int", ".Va(n, _) -> n\n.Vb(_, n) -> n + 100\n.Vc -> 0"),
            ("wildcards", ".Va(_, _) -> 1\n.Vb(_, _) -> 2\n.Vc -> 3"),
            ("bind void", ".Va(_, w) -> tv(w)\n.Vb(w, _) -> tv(w) + 10\n.Vc -> 0"),
            ("default only", "_ -> 4"),
        ] {
            items.push((format!("value {vn}, arms: {an}"), format!("let k = vh_next_int()\nlet e = {val}\nvh_emit_int(match e {{\n{arms}\n}})")));
        }
    }
    // a variant whose whole payload is void, matched with a payload pattern
    let single = Stratum::new(
        "S-voidvariant",
        "single-void-payload",
        "$0",
        vec![
            match_forms("e", "let k = vh_next_int()\nlet j = k + 77\nlet e = $2"),
            sv(&[".Dd(_) -> 9 + k\n_ -> 0", ".Aa -> 1\n.Dd(w) -> tv(w)\n_ -> 2", ".Bb(n) -> n\n.Dd(nil) -> 7\n_ -> 3"]),
            sv(&["En.Dd(nil)", "En.Dd(vf())", "En.Bb(k)"]),
        ],
    )
    .inputs(&[0])
    .key(VOID_PAYLOAD_ROOT_KEY);
    let opt = Stratum::new(
        "S-voidvariant",
        "option-of-void",
        "$0",
        vec![
            match_forms("o", "let k = vh_next_int()\nlet o: option<void> = $2"),
            sv(&[".some(_) -> 9 + k\n.none -> 0", ".none -> 1\n.some(w) -> tv(w)", ".some(nil) -> 7\n.none -> 3"]),
            sv(&["option.some(nil)", "option.some(vf())", "option.none"]),
        ],
    )
    .inputs(&[0])
    .key(VOID_PAYLOAD_ROOT_KEY);
    let misc = Stratum::list(
        "S-voidvariant",
        "void-payload-at-statement-level",
        named(&[
            ("enum payload void: construct and match", "let d = En.Dd(nil)\nvh_emit_int(match d {\n.Dd(w) -> tv(w)\n_ -> 0\n})"),
            ("enum payload void: wildcard", "let d = En.Dd(nil)\nvh_emit_int(match d {\n.Dd(_) -> 1\n.Aa -> 2\n_ -> 3\n})"),
            ("option of void", "let o = option.some(nil)\nprintln(o)\nvh_emit_int(match o {\n.some(_) -> 1\n.none -> 0\n})\nvh_emit_bool(o.is_some())"),
        ]),
    )
    .key(VOID_PAYLOAD_ROOT_KEY);
    // a generic function whose result type is instantiated to void
    let generic = Stratum::list(
        "S-voidvariant",
        "generic-void-result",
        named(&[
            ("unwrap of option<void> at statement level", "let o = option.some(nil)\nlet w = o!\nprintln(w)\nvh_emit_int(tv(w))"),
            ("unwrap of option<void> under a pending operand", "let o = option.some(nil)\nvh_emit_int(tr(1, 10) + {\nlet w = o!\n5\n})"),
            ("unwrap of result<void, string> under a pending operand", "let r: result<void, string> = result.ok(nil)\nvh_emit_int(tr(1, 10) + {\nr!\n5\n})"),
            ("user generic function returning an element of array<void>", "fn first@(a: array<T>) -> T = a[0]\nlet u = [nil]\nvh_emit_int(tr(1, 10) + {\nfirst@(u)\n5\n})\nvh_emit_int(first@([7, 8]))"),
        ]),
    )
    .key(GENERIC_VOID_ROOT_KEY);
    vec![Stratum::list("S-voidvariant", "match", items).inputs(&[0]).key(VOID_VARIANT_ROOT_KEY), single, opt, misc, generic]
}

// ---------------------------------------------------------------- S-task

fn task_strata(_tier: Tier) -> Vec<Stratum> {
    // (kind, declaration, observation (int), task-side mutation, spawner-side mutation)
    let kinds: Vec<(&str, &str, &str, &str, &str)> = vec![
        ("int", "var x = 5", "x", "x = x + 1", "x = 100"),
        ("string", "var x = \"ab\"", "if x == \"ab\" {\n1\n} else {\n2\n}", "x = x .. \"c\"", "x = \"\""),
        ("array", "let x = [1, 2]", "x.len()", "x.push(3)", "x.push(5)\nx.push(6)"),
        ("nested-array", "let x = [[1], [2, 3]]", "x[0].len() + (x.len() * 10)", "x[0].push(9)", "x[0].push(7)\nx.push([4])"),
        ("tuple", "var x = (1, [2])", "match x {\n(u, w) -> u + w.len()\n}", "x = (5, [6, 7])", "x = (9, [])"),
        ("struct", "let x = St(1, \"s\")", "x.a", "x.a = 7", "x.a = 20"),
        ("enum", "var x = En.Bb(4)", "match x {\n.Bb(n) -> n\n_ -> 0\n}", "x = En.Aa", "x = En.Bb(50)"),
        ("closure", "var k = 3\nvar x = (y: int) -> y + k", "x(1)", "x = (y: int) -> y * 10", "x = (y: int) -> y - 1"),
        ("channel", "let x: channel<int> = channel()\nx.write(11)", "x.read()", "x.write(12)", "x.write(13)"),
    ];
    let mut items = vec![];
    for (kind, decl, obs, tmut, smut) in kinds {
        for task_mutates in [false, true] {
            for spawner_mutates in [false, true] {
                let mut t = format!("let done: channel<int> = channel()\n{decl}\ntask {{\n");
                if task_mutates {
                    t.push_str(tmut);
                    t.push('\n');
                }
                t.push_str(&format!("done.write({obs})\n}}\n"));
                if spawner_mutates {
                    t.push_str(smut);
                    t.push('\n');
                }
                if kind == "channel" {
                    // the channel is shared: every write is read exactly once, the order between the tasks is not fixed
                    t.push_str("vh_emit_int(done.read())");
                    if task_mutates || spawner_mutates {
                        t.push_str("\nvh_emit_int(x.read())");
                    }
                } else {
                    t.push_str(&format!("vh_emit_int(done.read())\nvh_emit_int({obs})"));
                }
                items.push((format!("capture={kind} task={} spawner={}", if task_mutates { "mutates" } else { "reads" }, if spawner_mutates { "mutates-after-spawn" } else { "idle" }), t));
            }
        }
    }
    vec![Stratum::list("S-task", "capture", items).unmodelled().top_level()]
}

// ------------------------------------------------------------------------------------------ the universe

pub enum Part {
    Expr(EUniverse),
    Tpl(Stratum),
}

impl Part {
    pub fn len(&self) -> u64 {
        match self {
            Part::Expr(u) => u.len(),
            Part::Tpl(s) => s.len(),
        }
    }
    pub fn name(&self) -> String {
        match self {
            Part::Expr(u) => format!("F-expr/{}", u.cfg.name),
            Part::Tpl(s) => format!("{}/{}", s.family, s.name),
        }
    }
    pub fn family(&self) -> &'static str {
        match self {
            Part::Expr(_) => "F-expr",
            Part::Tpl(s) => s.family,
        }
    }
    pub fn top_level_only(&self) -> bool {
        matches!(self, Part::Tpl(s) if s.top_level_only)
    }
}

/// Which strata a property wants.
#[derive(Clone, Copy, PartialEq, Eq, Debug)]
pub enum Scope {
    /// the modelled universe: F-* and S-jump, S-voidvariant (C02, C05)
    Modelled,
    /// everything, including S-empty and S-task (C01)
    All,
}

pub struct Universe {
    pub parts: Vec<Part>,
    pub shared: Vec<D>,
    /// first global index of each part
    pub starts: Vec<u64>,
    pub total: u64,
}

impl Universe {
    pub fn new(tier: Tier, scope: Scope) -> Universe {
        let mut parts: Vec<Part> = vec![];
        for c in expr_cfgs(tier) {
            parts.push(Part::Expr(EUniverse::new(c)));
        }
        let mut strata = vec![];
        strata.extend(stmt_strata(tier));
        strata.extend(fn_strata(tier));
        strata.extend(data_strata(tier));
        strata.extend(match_strata(tier));
        strata.extend(jump_strata(tier));
        strata.extend(voidvariant_strata(tier));
        strata.extend(empty_strata(tier));
        if scope == Scope::All {
            strata.extend(task_strata(tier));
        }
        for s in strata {
            parts.push(Part::Tpl(s));
        }
        let mut starts = vec![];
        let mut total = 0;
        for p in &parts {
            starts.push(total);
            total += p.len();
        }
        Universe { parts, shared: shared_decls(), starts, total }
    }
    pub fn part_of(&self, idx: u64) -> (usize, u64) {
        let mut pi = match self.starts.binary_search(&idx) {
            Ok(i) => i,
            Err(i) => i - 1,
        };
        // skip empty parts that share a start
        while self.parts[pi].len() == 0 {
            pi += 1;
        }
        (pi, idx - self.starts[pi])
    }
    pub fn get(&self, idx: u64) -> Prog {
        let (pi, k) = self.part_of(idx);
        match &self.parts[pi] {
            Part::Expr(u) => u.get(k),
            Part::Tpl(s) => s.get(k, &self.shared),
        }
    }
    /// units: consecutive index ranges that never straddle a part, at most `unit_size` programs each
    pub fn units(&self, unit_size: u64) -> Vec<(usize, u64, u64)> {
        let mut v = vec![];
        for (pi, p) in self.parts.iter().enumerate() {
            let n = p.len();
            let mut a = 0;
            while a < n {
                let b = (a + unit_size).min(n);
                v.push((pi, self.starts[pi] + a, self.starts[pi] + b));
                a = b;
            }
        }
        v
    }
}

/// Size of the universe computed from the alphabet sizes alone (independent of the enumerators).
pub fn formula_total(tier: Tier, scope: Scope) -> u64 {
    let mut n: u64 = expr_cfgs(tier).iter().map(|c| c.formula_total()).sum();
    n += stmt_formula(tier);
    let q = tier == Tier::Quick;
    // F-fn
    n += 6 * 5 + 6 * 3 + 6 * if q { 3 } else { 6 } + 4;
    n += 2 * 3 * 3 * 3 * 2 + 3 * 2 * 3 * 2 + 2 * 3 * 4 * 3 * 2 + 2 * 3 * 3 * 2 + 2 * 2 * 2 * 2 + 6 * 8 + 20;
    // F-data
    n += if q { 7 * 10 + 9 * 9 + 5 * 6 + 5 * 5 } else { 7 * 10 * 10 + 5 * 6 * 6 };
    n += 21 + 20 + 5 * 7 + 4 * 6 + 5 * 3 + 4 * 3 + (5 * 4 + 13);
    // F-match
    n += 4 * (4 * 4 + 3 * 2 + 6 * 5 + 3 * 3 + 6 * 5 + 6 * 4) + 13;
    // S-jump: 20 positions x (4 jumps x 3 function wrappers + 2 top-level wrappers)
    n += 20 * (4 * 3 + 2);
    // S-voidvariant, S-empty
    n += 3 * 4 + 2 * (4 * 3 * 3) + 3 + 4 + 3 * 3 * 17;
    if scope == Scope::All {
        n += 9 * 2 * 2;
    }
    n
}

thread_local! {
    static UNIVERSES: std::cell::RefCell<Vec<((Tier, Scope), std::rc::Rc<Universe>)>> = const { std::cell::RefCell::new(vec![]) };
}

/// per-process cache (a worker serves many units of the same tier)
pub fn universe(tier: Tier, scope: Scope) -> std::rc::Rc<Universe> {
    UNIVERSES.with(|u| {
        let mut u = u.borrow_mut();
        if let Some(x) = u.iter().find(|x| x.0 == (tier, scope)) {
            return x.1.clone();
        }
        let n = std::rc::Rc::new(Universe::new(tier, scope));
        u.push(((tier, scope), n.clone()));
        n
    })
}

/// Deterministic selection of U-prog as complete standalone programs (`use vh` first line, body at
/// top level): every k-th program of every modelled part, k chosen per part so that each part
/// contributes at most `per_part` programs (its first and last program always included).
pub fn standalone_corpus_full(tier: Tier) -> Vec<(String, Prog)> {
    let u = universe(tier, Scope::Modelled);
    let per_part: u64 = tier.pick(12, 60);
    let mut v = vec![];
    for (pi, p) in u.parts.iter().enumerate() {
        let n = p.len();
        if n == 0 || p.family() == "S-jump" || p.family() == "S-voidvariant" || p.family() == "S-empty" {
            continue;
        }
        let step = n.div_ceil(per_part).max(1);
        let mut k = 0;
        while k < n {
            let pr = u.get(u.starts[pi] + k);
            if pr.modelled {
                v.push((pr.name(), pr));
            }
            k += step;
        }
    }
    v
}

pub fn standalone_corpus(tier: Tier) -> Vec<(String, String)> {
    standalone_corpus_full(tier).into_iter().map(|(n, p)| (n, p.standalone())).collect()
}
