//! Framework: property trait, unit/case bookkeeping, sharded subprocess execution,
//! known-finding matching, evidence and replay files.
//!
//! A property is a deterministic enumeration of *units*; a unit is a deterministic
//! enumeration of *cases*. Units are handed to worker subprocesses (the same binary
//! started with `worker`), so a process abort in the subject (stack overflow, allocation
//! failure, double free) is attributed to one case and the exploration continues after it.

use serde_json::{Value as J, json};
use std::collections::{BTreeMap, BTreeSet};
use std::io::{BufRead, BufReader, Write};
use std::process::{Command, Stdio};
use std::sync::atomic::{AtomicUsize, Ordering};
use std::sync::{Arc, Mutex};
use std::time::Instant;

#[derive(Clone, Copy, PartialEq, Eq, Debug)]
pub enum Tier {
    Quick,
    Thorough,
}
impl Tier {
    pub fn name(self) -> &'static str {
        match self {
            Tier::Quick => "quick",
            Tier::Thorough => "thorough",
        }
    }
    pub fn parse(s: &str) -> Option<Tier> {
        match s {
            "quick" => Some(Tier::Quick),
            "thorough" => Some(Tier::Thorough),
            _ => None,
        }
    }
    pub fn pick<T>(self, q: T, t: T) -> T {
        match self {
            Tier::Quick => q,
            Tier::Thorough => t,
        }
    }
}

pub fn fnv64(s: &[u8]) -> u64 {
    let mut h: u64 = 0xcbf29ce484222325;
    for b in s {
        h ^= *b as u64;
        h = h.wrapping_mul(0x100000001b3);
    }
    h
}
pub fn hkey(s: &str) -> String {
    format!("{:016x}", fnv64(s.as_bytes()))
}

#[derive(Clone, Debug)]
pub struct Violation {
    /// Keys under which a known-findings entry may match this violation
    /// (e.g. `input:<fnv64 of the case text>`, `site:<panic site>`).
    pub keys: Vec<String>,
    pub what: String,
    /// Human-readable details: input text, expected, observed.
    pub detail: J,
    pub unit: usize,
    pub case: u64,
}

/// Output of one unit, produced in the worker and shipped to the parent as one JSON line.
#[derive(Default)]
pub struct UnitOut {
    pub unit: usize,
    pub evaluations: u64,
    pub states: u64,
    pub transitions: u64,
    pub traces: u64,
    /// hashes of distinct non-trivial cases (deduplicated again across units by the parent)
    pub nontrivial: BTreeSet<u64>,
    pub classes: BTreeMap<String, u64>,
    pub counters: BTreeMap<String, i64>,
    pub violations: Vec<Violation>,
    pub samples: Vec<J>,
    pub notes: Vec<String>,
    pub capped: bool,
    // case filter
    pub only_case: Option<u64>,
    pub resume_from: u64,
    /// cases with an index >= this are skipped (used to re-collect the cases that ran before an abort)
    pub stop_before: Option<u64>,
    pub isolate: bool,
    cur_case: u64,
}

impl UnitOut {
    /// Announce case `idx` of this unit. Returns false if the case must be skipped
    /// (replay of a single case, or resuming after an abort).
    pub fn begin_case(&mut self, idx: u64) -> bool {
        self.cur_case = idx;
        if let Some(o) = self.only_case {
            if o != idx {
                return false;
            }
        }
        if idx < self.resume_from {
            return false;
        }
        if let Some(s) = self.stop_before {
            if idx >= s {
                return false;
            }
        }
        if self.isolate {
            let mut so = std::io::stdout().lock();
            let _ = writeln!(so, "{}", json!({"case": idx}));
            let _ = so.flush();
        }
        true
    }
    /// set the current case without announcing it (used when results of a batch are judged)
    pub fn begin_case_quiet(&mut self, idx: u64) {
        self.cur_case = idx;
    }
    pub fn describe_case(&mut self, desc: &str) {
        if self.isolate {
            let mut so = std::io::stdout().lock();
            let _ = writeln!(so, "{}", json!({"case": self.cur_case, "desc": desc}));
            let _ = so.flush();
        }
    }
    pub fn class(&mut self, c: &str) {
        *self.classes.entry(c.to_string()).or_insert(0) += 1;
    }
    pub fn count(&mut self, c: &str, n: i64) {
        *self.counters.entry(c.to_string()).or_insert(0) += n;
    }
    pub fn nontrivial_text(&mut self, s: &str) {
        self.nontrivial.insert(fnv64(s.as_bytes()));
    }
    pub fn sample(&mut self, j: J) {
        if self.samples.len() < 3 {
            self.samples.push(j);
        }
    }
    pub fn violation(&mut self, keys: Vec<String>, what: impl Into<String>, detail: J) {
        let v = Violation {
            keys,
            what: what.into(),
            detail,
            unit: self.unit,
            case: self.cur_case,
        };
        // keep the report bounded: identical key sets are collapsed
        if self.violations.len() < 2000 {
            self.violations.push(v);
        } else {
            self.count("violations_dropped_over_cap", 1);
        }
    }
    fn to_json(&self) -> J {
        json!({
            "unit": self.unit,
            "evaluations": self.evaluations,
            "states": self.states,
            "transitions": self.transitions,
            "traces": self.traces,
            "nontrivial": self.nontrivial.iter().collect::<Vec<_>>(),
            "classes": self.classes,
            "counters": self.counters,
            "violations": self.violations.iter().map(|v| json!({
                "keys": v.keys, "what": v.what, "detail": v.detail, "unit": v.unit, "case": v.case
            })).collect::<Vec<_>>(),
            "samples": self.samples,
            "notes": self.notes,
            "capped": self.capped,
        })
    }
}

pub trait Prop: Sync {
    fn id(&self) -> &'static str;
    /// evidence level category
    fn level(&self) -> &'static str;
    fn n_units(&self, tier: Tier) -> usize;
    fn run_unit(&self, tier: Tier, unit: usize, out: &mut UnitOut);
    fn rule(&self, tier: Tier) -> String;
    fn assumptions(&self) -> Vec<String> {
        vec![]
    }
    /// Expected number of evaluations if known in closed form (machinery check).
    fn expected_evaluations(&self, _tier: Tier) -> Option<u64> {
        None
    }
    /// Minimum number of distinct outcome classes for the run not to be vacuous.
    fn min_classes(&self) -> usize {
        2
    }
    /// Run every unit a second time in the AddressSanitizer build of this binary.
    fn asan(&self) -> bool {
        false
    }
    /// Replay a recorded violation directly from the replay file's `detail` (e.g. one recorded
    /// schedule on one program), WITHOUT the explorer. `None` = not supported by this property
    /// (the generic replay re-runs the recorded unit/case instead). `Some(Ok(obs))` = no violation,
    /// `Some(Err(what))` = the violation reproduces; `obs`/`what` must be deterministic.
    fn replay_detail(&self, _detail: &J) -> Option<Result<String, String>> {
        None
    }
    /// Extra work done once in the parent before the units run (e.g. build a generated crate).
    fn prepare(&self, _tier: Tier) -> Result<(), String> {
        Ok(())
    }
}

#[derive(Default)]
struct Agg {
    evaluations: u64,
    states: u64,
    transitions: u64,
    traces: u64,
    nontrivial: BTreeSet<u64>,
    classes: BTreeMap<String, u64>,
    counters: BTreeMap<String, i64>,
    violations: Vec<Violation>,
    samples: Vec<J>,
    notes: BTreeSet<String>,
    capped: bool,
    units_done: usize,
    unit_ms: Vec<(u64, u64)>,
    machinery_errors: Vec<String>,
}

impl Agg {
    fn absorb(&mut self, j: &J) {
        self.evaluations += j["evaluations"].as_u64().unwrap_or(0);
        self.states += j["states"].as_u64().unwrap_or(0);
        self.transitions += j["transitions"].as_u64().unwrap_or(0);
        self.traces += j["traces"].as_u64().unwrap_or(0);
        if let Some(a) = j["nontrivial"].as_array() {
            for x in a {
                if let Some(x) = x.as_u64() {
                    self.nontrivial.insert(x);
                }
            }
        }
        if let Some(o) = j["classes"].as_object() {
            for (k, v) in o {
                *self.classes.entry(k.clone()).or_insert(0) += v.as_u64().unwrap_or(0);
            }
        }
        if let Some(o) = j["counters"].as_object() {
            for (k, v) in o {
                *self.counters.entry(k.clone()).or_insert(0) += v.as_i64().unwrap_or(0);
            }
        }
        if let Some(a) = j["violations"].as_array() {
            for v in a {
                self.violations.push(Violation {
                    keys: v["keys"]
                        .as_array()
                        .map(|a| {
                            a.iter()
                                .filter_map(|x| x.as_str().map(|s| s.to_string()))
                                .collect()
                        })
                        .unwrap_or_default(),
                    what: v["what"].as_str().unwrap_or("").to_string(),
                    detail: v["detail"].clone(),
                    unit: v["unit"].as_u64().unwrap_or(0) as usize,
                    case: v["case"].as_u64().unwrap_or(0),
                });
            }
        }
        if let Some(a) = j["samples"].as_array() {
            for s in a {
                if self.samples.len() < 6 {
                    self.samples.push(s.clone());
                }
            }
        }
        if let Some(a) = j["notes"].as_array() {
            for s in a {
                if let Some(s) = s.as_str() {
                    self.notes.insert(s.to_string());
                }
            }
        }
        if j["capped"].as_bool().unwrap_or(false) {
            self.capped = true;
        }
        self.units_done += 1;
        self.unit_ms.push((j["ms"].as_u64().unwrap_or(0), j["unit"].as_u64().unwrap_or(0)));
    }
}

pub fn verif_root() -> std::path::PathBuf {
    if let Ok(p) = std::env::var("VERIF_ROOT") {
        return p.into();
    }
    // engine binary lives in <root>/engine/target/release/engine
    let exe = std::env::current_exe().unwrap();
    let mut p = exe.as_path();
    for _ in 0..4 {
        p = p.parent().unwrap_or(p);
    }
    p.to_path_buf()
}

/// Worker entry: read unit requests from stdin, answer on stdout.
/// Request line: `<unit> <resume_from> <isolate 0/1> <only_case or -> [<stop_before or ->]`
pub fn worker_main(prop: &dyn Prop, tier: Tier) {
    let stdin = std::io::stdin();
    for line in stdin.lock().lines() {
        let Ok(line) = line else { break };
        let parts: Vec<&str> = line.split_whitespace().collect();
        if parts.len() < 4 {
            continue;
        }
        let unit: usize = parts[0].parse().unwrap();
        let mut out = UnitOut {
            unit,
            resume_from: parts[1].parse().unwrap(),
            isolate: parts[2] == "1",
            only_case: parts[3].parse().ok(),
            stop_before: parts.get(4).and_then(|s| s.parse().ok()),
            ..Default::default()
        };
        {
            let mut so = std::io::stdout().lock();
            let _ = writeln!(so, "{}", json!({"start": unit}));
            let _ = so.flush();
        }
        let t_unit = Instant::now();
        prop.run_unit(tier, unit, &mut out);
        let mut rj = out.to_json();
        rj["ms"] = json!(t_unit.elapsed().as_millis() as u64);
        let mut so = std::io::stdout().lock();
        let _ = writeln!(so, "{}", json!({"result": rj}));
        let _ = so.flush();
    }
}

struct Worker {
    child: std::process::Child,
    stdin: std::process::ChildStdin,
    stdout: BufReader<std::process::ChildStdout>,
}

pub fn asan_exe() -> std::path::PathBuf {
    verif_root().join("engine/target-asan/x86_64-unknown-linux-gnu/release/engine")
}

fn spawn_worker(prop_id: &str, tier: Tier, asan: bool) -> Worker {
    let exe = if asan { asan_exe() } else { std::env::current_exe().unwrap() };
    let mut child = Command::new(exe)
        .env("ASAN_OPTIONS", "detect_leaks=0:abort_on_error=1:allocator_may_return_null=1")
        .arg("worker")
        .arg(prop_id)
        .arg(tier.name())
        .stdin(Stdio::piped())
        .stdout(Stdio::piped())
        .stderr(Stdio::null())
        .spawn()
        .expect("spawn worker");
    let stdin = child.stdin.take().unwrap();
    let stdout = BufReader::new(child.stdout.take().unwrap());
    Worker { child, stdin, stdout }
}

enum UnitEnd {
    Result(J),
    /// worker died; last announced case (if isolate) and its description
    Died(Option<u64>, Option<String>, String),
}

fn run_unit_on(w: &mut Worker, unit: usize, resume_from: u64, isolate: bool, only: Option<u64>) -> UnitEnd {
    run_unit_range(w, unit, resume_from, isolate, only, None)
}

fn run_unit_range(w: &mut Worker, unit: usize, resume_from: u64, isolate: bool, only: Option<u64>, stop_before: Option<u64>) -> UnitEnd {
    let req = format!(
        "{} {} {} {} {}\n",
        unit,
        resume_from,
        if isolate { 1 } else { 0 },
        only.map(|x| x.to_string()).unwrap_or("-".into()),
        stop_before.map(|x| x.to_string()).unwrap_or("-".into())
    );
    if w.stdin.write_all(req.as_bytes()).is_err() || w.stdin.flush().is_err() {
        return UnitEnd::Died(None, None, "worker stdin closed".into());
    }
    let mut last_case = None;
    let mut last_desc = None;
    loop {
        let mut line = String::new();
        match w.stdout.read_line(&mut line) {
            Ok(0) | Err(_) => {
                let status = w.child.wait().map(|s| format!("{s}")).unwrap_or("?".into());
                return UnitEnd::Died(last_case, last_desc, status);
            }
            Ok(_) => {}
        }
        let Ok(j) = serde_json::from_str::<J>(line.trim()) else {
            continue; // stray output from the subject
        };
        if let Some(c) = j.get("case").and_then(|c| c.as_u64()) {
            last_case = Some(c);
            if let Some(d) = j.get("desc").and_then(|d| d.as_str()) {
                last_desc = Some(d.to_string());
            } else {
                last_desc = None;
            }
        }
        if let Some(r) = j.get("result") {
            return UnitEnd::Result(r.clone());
        }
    }
}

pub struct RunCfg {
    pub tier: Tier,
    pub seed: i64,
    pub workers: usize,
    pub wall_cap_s: f64,
}

/// Parent entry. Returns process exit code.
pub fn run_property(prop: &dyn Prop, cfg: &RunCfg) -> i32 {
    let t0 = Instant::now();
    let id = prop.id();
    let tier = cfg.tier;
    if let Err(e) = prop.prepare(tier) {
        eprintln!("MACHINERY-ERROR property={id} prepare failed: {e}");
        return 2;
    }
    let n_logical = prop.n_units(tier);
    let use_asan = prop.asan() && std::env::var("VERIF_NO_ASAN").is_err();
    if use_asan && !asan_exe().exists() {
        eprintln!("MACHINERY-ERROR property={id} AddressSanitizer build {} is missing (run ./check, which builds it)", asan_exe().display());
        return 2;
    }
    let n_units = if use_asan { 2 * n_logical } else { n_logical };
    let next = Arc::new(AtomicUsize::new(0));
    let agg = Arc::new(Mutex::new(Agg::default()));
    let nworkers = cfg.workers.min(n_units.max(1));
    let wall_cap = cfg.wall_cap_s;
    std::thread::scope(|s| {
        for _ in 0..nworkers {
            let next = next.clone();
            let agg = agg.clone();
            s.spawn(move || {
                let mut workers: [Option<Worker>; 2] = [None, None];
                loop {
                    let item = next.fetch_add(1, Ordering::SeqCst);
                    if item >= n_units {
                        break;
                    }
                    let asan = item >= n_logical;
                    let unit = item % n_logical;
                    let slot = asan as usize;
                    if workers[slot].is_none() {
                        workers[slot] = Some(spawn_worker(id, tier, asan));
                    }
                    let mut w = workers[slot].take().unwrap();
                    if t0.elapsed().as_secs_f64() > wall_cap {
                        let mut a = agg.lock().unwrap();
                        a.capped = true;
                        a.notes.insert(format!("wall cap {wall_cap}s reached; unit {unit} and later not run"));
                        break;
                    }
                    let mut resume = 0u64;
                    let mut isolate = false;
                    let mut aborts = 0;
                    loop {
                        match run_unit_on(&mut w, unit, resume, isolate, None) {
                            UnitEnd::Result(j) => {
                                let mut a = agg.lock().unwrap();
                                a.absorb(&j);
                                if asan {
                                    *a.counters.entry("units_done_under_asan".into()).or_insert(0) += 1;
                                }
                                break;
                            }
                            UnitEnd::Died(case, desc, status) => {
                                w = spawn_worker(id, tier, asan);
                                if !isolate {
                                    // re-run the unit announcing every case so the abort can be attributed
                                    isolate = true;
                                    continue;
                                }
                                aborts += 1;
                                // the cases resume..c ran fine but their results died with the worker: collect them again
                                if let Some(c) = case {
                                    if c > resume && aborts <= 50 {
                                        match run_unit_range(&mut w, unit, resume, false, None, Some(c)) {
                                            UnitEnd::Result(j) => {
                                                let mut a = agg.lock().unwrap();
                                                a.absorb(&j);
                                                a.units_done -= 1; // a partial result, not a finished unit
                                            }
                                            UnitEnd::Died(..) => {
                                                w = spawn_worker(id, tier, asan);
                                                agg.lock().unwrap().machinery_errors.push(format!(
                                                    "unit {unit}: cases {resume}..{c} ran before an abort but could not be re-collected"
                                                ));
                                            }
                                        }
                                    }
                                }
                                let mut a = agg.lock().unwrap();
                                match case {
                                    Some(c) if aborts <= 50 => {
                                        let d = desc.unwrap_or_default();
                                        a.violations.push(Violation {
                                            keys: vec![format!("input:{}", hkey(&d)), "abort".into()],
                                            what: format!("process abort ({status}{}) while running: {d}", if asan { ", AddressSanitizer build" } else { "" }),
                                            detail: json!({"case_text": d, "exit": status}),
                                            unit,
                                            case: c,
                                        });
                                        resume = c + 1;
                                    }
                                    _ => {
                                        a.machinery_errors.push(format!(
                                            "worker died in unit {unit} ({status}) without an attributable case"
                                        ));
                                        break;
                                    }
                                }
                            }
                        }
                    }
                    workers[slot] = Some(w);
                }
                for w in workers.into_iter().flatten() {
                    let mut w = w;
                    drop(w.stdin);
                    let _ = w.child.wait();
                }
            });
        }
    });
    let mut agg = Arc::try_unwrap(agg).ok().unwrap().into_inner().unwrap();
    finish(prop, cfg, &mut agg, n_units, t0)
}

#[derive(Clone)]
pub struct Known {
    pub property: String,
    pub status: String,
    pub key: String,
    pub what: String,
}

pub fn load_known() -> Vec<Known> {
    let p = verif_root().join("known_findings.json");
    let Ok(s) = std::fs::read_to_string(&p) else { return vec![] };
    let Ok(j) = serde_json::from_str::<J>(&s) else {
        eprintln!("MACHINERY-ERROR cannot parse {}", p.display());
        std::process::exit(2);
    };
    let mut v = vec![];
    if let Some(a) = j["findings"].as_array() {
        for e in a {
            v.push(Known {
                property: e["property"].as_str().unwrap_or("").into(),
                status: e["status"].as_str().unwrap_or("").into(),
                key: e["match"].as_str().unwrap_or("").into(),
                what: e["what"].as_str().unwrap_or("").into(),
            });
        }
    }
    v
}

fn finish(prop: &dyn Prop, cfg: &RunCfg, agg: &mut Agg, n_units: usize, t0: Instant) -> i32 {
    let id = prop.id();
    let tier = cfg.tier;
    let root = verif_root();
    let known = load_known();
    let mut exit = 0;

    // machinery self-checks
    if agg.units_done != n_units && !agg.capped {
        agg.machinery_errors.push(format!("units done {} != units planned {}", agg.units_done, n_units));
    }
    if let Some(exp) = prop.expected_evaluations(tier) {
        if exp != agg.evaluations && !agg.capped && agg.violations.iter().all(|v| !v.keys.contains(&"abort".to_string())) {
            agg.machinery_errors.push(format!(
                "closed-form case count {} != evaluations executed {}",
                exp, agg.evaluations
            ));
        }
    }
    if agg.classes.len() < prop.min_classes() {
        agg.machinery_errors.push(format!(
            "vacuous exploration: only {} distinct outcome classes observed ({:?})",
            agg.classes.len(),
            agg.classes.keys().collect::<Vec<_>>()
        ));
    }

    // violations vs known findings
    agg.violations.sort_by(|a, b| (a.unit, a.case, &a.what).cmp(&(b.unit, b.case, &b.what)));
    let mut known_hit: BTreeMap<String, (String, u64)> = BTreeMap::new();
    let mut new_violations = vec![];
    for v in &agg.violations {
        let m = known
            .iter()
            .find(|k| k.property == id && k.status == "open" && v.keys.iter().any(|x| *x == k.key));
        match m {
            Some(k) => {
                let e = known_hit.entry(k.key.clone()).or_insert((k.what.clone(), 0));
                e.1 += 1;
            }
            None => new_violations.push(v.clone()),
        }
    }
    for (key, (what, n)) in &known_hit {
        println!("KNOWN-FINDING: property={id} {what} [match={key}, cases={n}]");
    }
    let replay_dir = root.join("replays");
    let _ = std::fs::create_dir_all(&replay_dir);
    let mut printed = 0;
    let mut seen_keys = BTreeSet::new();
    for v in &new_violations {
        let k0 = v.keys.first().cloned().unwrap_or_default();
        let fname = format!("{}-{}.json", id, hkey(&format!("{}|{}|{}|{}", k0, v.unit, v.case, v.what)));
        let path = replay_dir.join(fname);
        let body = json!({
            "property": id, "tier": tier.name(), "unit": v.unit, "case": v.case,
            "keys": v.keys, "what": v.what, "detail": v.detail,
            "replay_cmd": format!("./check {} --replay {}", id, path.display()),
        });
        let _ = std::fs::write(&path, serde_json::to_string_pretty(&body).unwrap());
        // one line per distinct primary key, capped, so output stays readable
        if seen_keys.insert(v.keys.clone()) && printed < 40 {
            println!("VIOLATION property={id} replay={}", path.display());
            println!("  what: {}", v.what.lines().next().unwrap_or(""));
            printed += 1;
        }
        exit = 1;
    }
    if new_violations.len() > printed {
        println!("  ({} violations in total, {} printed; all written to {})", new_violations.len(), printed, replay_dir.display());
    }

    let wall = t0.elapsed().as_secs_f64();
    let exhaustive = !agg.capped && agg.machinery_errors.is_empty();
    let slowest: Vec<J> = {
        let mut v = agg.unit_ms.clone();
        v.sort();
        v.reverse();
        v.truncate(5);
        v.iter().map(|(ms, u)| json!({"unit": u, "ms": ms})).collect()
    };
    let mut coverage = json!({
        "evaluations": agg.evaluations,
        "distinct_nontrivial": agg.nontrivial.len(),
        "rule": prop.rule(tier),
        "samples": agg.samples,
        "exhaustive": exhaustive,
        "capped": agg.capped,
        "units": n_units,
        "units_done": agg.units_done,
        "outcome_classes": agg.classes,
        "counters": agg.counters,
        "slowest_units_ms": slowest,
        "known_findings_hit": known_hit.iter().map(|(k,(w,n))| json!({"match":k,"what":w,"cases":n})).collect::<Vec<_>>(),
        "notes": agg.notes.iter().collect::<Vec<_>>(),
    });
    if prop.level() == "model_checking" {
        coverage["states"] = json!(agg.states);
        coverage["transitions"] = json!(agg.transitions);
        coverage["traces_validated_against_impl"] = json!(agg.traces);
    }
    if prop.level() == "translation_validation" {
        coverage["programs"] = json!(agg.evaluations);
        coverage["disagreements_checked"] = json!(agg.counters.get("disagreements_checked").copied().unwrap_or(0));
    }
    if let Some(exp) = prop.expected_evaluations(tier) {
        coverage["evaluations_closed_form"] = json!(exp);
    }
    let ev = json!({
        "property_id": id,
        "tier": tier.name(),
        "seed": cfg.seed,
        "level": prop.level(),
        "coverage": coverage,
        "assumptions": prop.assumptions(),
        "wall_s": (wall * 1000.0).round() / 1000.0,
        "violations": new_violations.len(),
        "machinery_errors": agg.machinery_errors,
    });
    let evdir = root.join("evidence");
    let _ = std::fs::create_dir_all(&evdir);
    let evpath = evdir.join(format!("{id}.json"));
    if let Err(e) = std::fs::write(&evpath, serde_json::to_string_pretty(&ev).unwrap()) {
        eprintln!("MACHINERY-ERROR cannot write evidence {}: {e}", evpath.display());
        return 2;
    }
    for e in &agg.machinery_errors {
        eprintln!("MACHINERY-ERROR property={id} {e}");
    }
    println!(
        "{id} {}: units={} evaluations={} distinct_nontrivial={} states={} transitions={} classes={} violations={} known={} wall={:.1}s{}",
        tier.name(),
        n_units,
        agg.evaluations,
        agg.nontrivial.len(),
        agg.states,
        agg.transitions,
        agg.classes.len(),
        new_violations.len(),
        known_hit.len(),
        wall,
        if agg.capped { " CAPPED" } else { "" }
    );
    if exit == 0 && !agg.machinery_errors.is_empty() {
        return 2;
    }
    exit
}

/// Re-run exactly one case in-process (no subprocess, no explorer) from a replay file.
pub fn replay(prop: &dyn Prop, path: &str) -> i32 {
    let s = match std::fs::read_to_string(path) {
        Ok(s) => s,
        Err(e) => {
            eprintln!("cannot read {path}: {e}");
            return 2;
        }
    };
    let j: J = serde_json::from_str(&s).unwrap();
    // direct replay of the recorded schedule / history, twice, without the explorer
    if let Some(r1) = prop.replay_detail(&j["detail"]) {
        let r2 = prop.replay_detail(&j["detail"]).unwrap();
        if r1 != r2 {
            eprintln!("MACHINERY-ERROR replay is not deterministic: {r1:?} vs {r2:?}");
            return 2;
        }
        return match r1 {
            Ok(o) => {
                println!("replay (direct): no violation: {o}");
                0
            }
            Err(w) => {
                println!("replay (direct): {w}");
                println!("VIOLATION property={} replay={}", prop.id(), path);
                1
            }
        };
    }
    let tier = Tier::parse(j["tier"].as_str().unwrap_or("quick")).unwrap();
    let unit = j["unit"].as_u64().unwrap() as usize;
    let case = j["case"].as_u64().unwrap();
    let mut obs = vec![];
    for _ in 0..2 {
        let mut out = UnitOut { unit, only_case: Some(case), ..Default::default() };
        prop.run_unit(tier, unit, &mut out);
        let mut sigs: Vec<String> = out.violations.iter().map(|v| format!("{:?} {}", v.keys, v.what)).collect();
        sigs.sort();
        obs.push(sigs);
    }
    if obs[0] != obs[1] {
        eprintln!("MACHINERY-ERROR replay is not deterministic: {:?} vs {:?}", obs[0], obs[1]);
        return 2;
    }
    if obs[0].is_empty() {
        println!("replay: no violation for {} unit {} case {}", prop.id(), unit, case);
        0
    } else {
        for s in &obs[0] {
            println!("replay: {s}");
        }
        println!("VIOLATION property={} replay={}", prop.id(), path);
        1
    }
}
