//! Schedule exploration of the real VM and its real collector.
//!
//! The transition system is the implementation itself: `M` executes one instruction of the thread at
//! the front of the run queue (`Runtime::run_n_steps(1)`, host calls serviced at once), and the
//! collector actions `S`/`K`/`W` (start a cycle / mark exactly one grey object / sweep exactly one
//! object, per green thread) call the real `start_mark_phase` / `process_gray` / `sweep` through the
//! hooks of `abra_core::verif`. Any real pacing is a coarsening of these micro-steps.
//!
//! A state is the history that reaches it (live VMs cannot be cloned); exploring a transition replays
//! the history on a fresh runtime. States are merged on a fingerprint of the collector state of every
//! thread plus the number of mutator steps; the cheap mutator fingerprint is compared at every merge
//! and a disagreement is a machinery error.

use crate::drive::{self, End, Input, PanicInfo, Src, StdHost};
use abra_core::verif::{CompiledProgram, GcPhase};
use abra_core::vm::{Runtime, RuntimeStatusKind};
use std::collections::{HashMap, VecDeque};

#[derive(Clone, Copy, Debug, PartialEq, Eq, Hash)]
pub enum Act {
    /// one mutator instruction (round-robin front thread)
    M,
    /// start a collection cycle on thread #i (creation order; 0 = main)
    S(u8),
    /// mark one grey object of thread #i
    K(u8),
    /// sweep one object of thread #i
    W(u8),
}

pub fn fmt_hist(h: &[Act]) -> String {
    // run-length encoded, e.g. "M7 S0 M K0 K0 W0 W0"
    let mut s = String::new();
    let mut i = 0;
    while i < h.len() {
        let mut j = i;
        while j < h.len() && h[j] == h[i] {
            j += 1;
        }
        let a = match h[i] {
            Act::M => "M".to_string(),
            Act::S(t) => format!("S{t}"),
            Act::K(t) => format!("K{t}"),
            Act::W(t) => format!("W{t}"),
        };
        if !s.is_empty() {
            s.push(' ');
        }
        if j - i > 1 {
            s.push_str(&format!("{a}^{}", j - i));
        } else {
            s.push_str(&a);
        }
        i = j;
    }
    s
}

/// inverse of `fmt_hist`
pub fn parse_hist(s: &str) -> Option<Vec<Act>> {
    let mut v = vec![];
    for w in s.split_whitespace() {
        let (a, n) = match w.split_once('^') {
            Some((a, n)) => (a, n.parse::<usize>().ok()?),
            None => (w, 1),
        };
        let act = if a == "M" {
            Act::M
        } else {
            let t: u8 = a[1..].parse().ok()?;
            match &a[..1] {
                "S" => Act::S(t),
                "K" => Act::K(t),
                "W" => Act::W(t),
                _ => return None,
            }
        };
        for _ in 0..n {
            v.push(act);
        }
    }
    Some(v)
}

/// Replay one recorded schedule on one program (no search): invariant after every action and the
/// final outcome against the collection-disabled run.
pub fn replay_schedule(name: &str, text: &str, inputs: Vec<Input>, schedule: &str) -> Result<String, String> {
    let prog = Prog::compile(name, text, inputs)?;
    let hist = parse_hist(schedule).ok_or_else(|| format!("cannot parse schedule `{schedule}`"))?;
    let (reference, _) = reference(&prog, 200_000);
    let mut s = Sys::new(&prog);
    for (i, a) in hist.iter().enumerate() {
        s.apply(*a);
        if let Err(e) = s.invariant() {
            return Err(format!("after action {} of `{schedule}`: {e}", i + 1));
        }
        if let Some(v) = &s.precision_violation {
            return Err(format!("after action {} of `{schedule}`: {v}", i + 1));
        }
    }
    if s.terminal() {
        let o = s.outcome();
        if o != reference {
            return Err(format!("outcome {:?} differs from the collection-disabled run {:?}", (&o.end, &o.emits, &o.out), (&reference.end, &reference.emits, &reference.out)));
        }
    }
    Ok(format!("schedule of {} actions replayed, invariant held in every state", hist.len()))
}

pub struct Prog {
    pub name: String,
    pub text: String,
    pub compiled: CompiledProgram,
    pub table: Vec<String>,
    pub inputs: Vec<Input>,
}

impl Prog {
    pub fn compile(name: &str, text: &str, inputs: Vec<Input>) -> Result<Prog, String> {
        let src = Src::with_vh(text);
        match drive::compile(&src, drive::COpts::default()) {
            drive::Compiled::Ok(p) => Ok(Prog {
                name: name.into(),
                text: text.into(),
                compiled: p,
                table: src.host_table(),
                inputs,
            }),
            drive::Compiled::Diag(d) => Err(format!("does not compile: {d}")),
            drive::Compiled::Panic(p) => Err(format!("compiler panic at {}: {}", p.site, p.msg)),
        }
    }
}

/// Observable outcome of a (partial) execution.
#[derive(Clone, Debug, PartialEq)]
pub struct Outcome {
    pub end: Option<End>,
    pub emits: Vec<drive::Emit>,
    pub out: String,
}

pub struct Sys<'p> {
    pub prog: &'p Prog,
    pub rt: Option<Runtime>,
    pub host: StdHost,
    pub msteps: u32,
    pub main_id: u64,
    pub cycles: HashMap<u8, u32>,
    pub end: Option<End>,
    pub fault: Option<PanicInfo>,
    /// per thread: objects of its heap that were unreachable (from every thread) when its current cycle started
    pub garbage_at_start: HashMap<u8, Vec<u32>>,
    /// set when a cycle finished without reclaiming something that was garbage at its start
    pub precision_violation: Option<String>,
    /// completed cycles over all threads
    pub cycles_completed: u32,
}

impl<'p> Sys<'p> {
    pub fn new(prog: &'p Prog) -> Sys<'p> {
        abra_core::verif::set_gc_manual(true);
        abra_core::verif::set_quarantine(true);
        abra_core::verif::reset_alloc_seq();
        let rt = Runtime::new(prog.compiled.clone());
        let main_id = rt.main().id();
        let mut host = StdHost::default();
        host.inputs = prog.inputs.iter().cloned().collect();
        Sys {
            prog,
            rt: Some(rt),
            host,
            msteps: 0,
            main_id,
            cycles: HashMap::new(),
            end: None,
            fault: None,
            garbage_at_start: HashMap::new(),
            precision_violation: None,
            cycles_completed: 0,
        }
    }

    pub fn rt(&self) -> &Runtime {
        self.rt.as_ref().unwrap()
    }

    fn tid(&self, t: u8) -> u64 {
        self.main_id + t as u64
    }

    /// thread indices (creation order) of the threads currently in the run queue
    pub fn threads(&self) -> Vec<u8> {
        let mut v: Vec<u8> = self
            .rt()
            .verif_queue_ids()
            .into_iter()
            .map(|id| (id - self.main_id) as u8)
            .collect();
        v.sort();
        v
    }

    pub fn terminal(&self) -> bool {
        self.end.is_some() || self.fault.is_some()
    }

    pub fn enabled(&self, max_cycles: u32) -> Vec<Act> {
        let mut v = vec![];
        if self.terminal() {
            return v;
        }
        v.push(Act::M);
        for t in self.threads() {
            let id = self.tid(t);
            let Some(th) = self.rt().verif_threads().into_iter().find(|x| x.id() == id) else { continue };
            if th.verif_is_done() {
                continue;
            }
            match th.verif_gc_phase() {
                GcPhase::Idle => {
                    if self.cycles.get(&t).copied().unwrap_or(0) < max_cycles {
                        v.push(Act::S(t));
                    }
                }
                GcPhase::Marking => v.push(Act::K(t)),
                GcPhase::Sweeping => v.push(Act::W(t)),
            }
        }
        v
    }

    /// Apply one action on the real implementation. A Rust panic is recorded in `fault`.
    pub fn apply(&mut self, a: Act) {
        if self.terminal() {
            return;
        }
        let mut rt = self.rt.take().unwrap();
        let table = &self.prog.table;
        let host = &mut self.host;
        let main_id = self.main_id;
        let tid = move |t: u8| main_id + t as u64;
        let r = drive::catch(|| -> Option<End> {
            match a {
                Act::M => {
                    let st = rt.run_n_steps(1);
                    match st.kind {
                        RuntimeStatusKind::Done => return Some(End::Done),
                        RuntimeStatusKind::MainThreadError(e) => return Some(drive::classify_error(&format!("{e}"))),
                        RuntimeStatusKind::PendingHostFunc => drive::service_all(&mut rt, table, host),
                        RuntimeStatusKind::OutOfSteps => {}
                    }
                    None
                }
                Act::S(t) => {
                    if let Some(th) = rt.verif_thread_mut(tid(t)) {
                        th.verif_gc_start();
                    }
                    None
                }
                Act::K(t) => {
                    if let Some(th) = rt.verif_thread_mut(tid(t)) {
                        th.verif_gc_mark_one();
                    }
                    None
                }
                Act::W(t) => {
                    if let Some(th) = rt.verif_thread_mut(tid(t)) {
                        th.verif_gc_sweep_one();
                    }
                    None
                }
            }
        });
        match r {
            Ok(end) => {
                match a {
                    Act::M => self.msteps += 1,
                    Act::S(t) => *self.cycles.entry(t).or_insert(0) += 1,
                    _ => {}
                }
                self.end = end;
                self.rt = Some(rt);
                // precision bookkeeping (C07a): garbage at cycle start must be gone at cycle end
                match a {
                    Act::S(t) => {
                        let rt = self.rt.as_ref().unwrap();
                        let id = main_id + t as u64;
                        let reach: std::collections::HashSet<u32> = rt.verif_reachable_all().into_iter().collect();
                        if let Some(th) = rt.verif_threads().into_iter().find(|x| x.id() == id) {
                            let g: Vec<u32> = th.verif_heap_seqs().into_iter().filter(|s| !reach.contains(s)).collect();
                            self.garbage_at_start.insert(t, g);
                        }
                    }
                    Act::W(t) => {
                        let rt = self.rt.as_ref().unwrap();
                        let id = main_id + t as u64;
                        if let Some(th) = rt.verif_threads().into_iter().find(|x| x.id() == id) {
                            if th.verif_gc_phase() == GcPhase::Idle {
                                self.cycles_completed += 1;
                                let live: std::collections::HashSet<u32> = th.verif_heap_seqs().into_iter().collect();
                                if let Some(g) = self.garbage_at_start.remove(&t) {
                                    let kept: Vec<u32> = g.into_iter().filter(|s| live.contains(s)).collect();
                                    if !kept.is_empty() {
                                        self.precision_violation = Some(format!(
                                            "cycle on thread {t} finished but object(s) {kept:?} that were unreachable when it started were not reclaimed"
                                        ));
                                    }
                                }
                            }
                        }
                    }
                    _ => {}
                }
            }
            Err(p) => {
                // the runtime may be inconsistent: leak it
                std::mem::forget(rt);
                self.fault = Some(p);
            }
        }
    }

    /// Fingerprint used for merging: mutator step count + per thread (index, cycles used, gc key).
    pub fn key(&self) -> Vec<u32> {
        let mut k = vec![self.msteps];
        if let Some(e) = &self.end {
            k.push(0xE0D);
            k.push(crate::fw::fnv64(e.class().as_bytes()) as u32);
        }
        let Some(rt) = &self.rt else { return k };
        let mut ths: Vec<_> = rt.verif_threads();
        ths.sort_by_key(|t| t.id());
        for th in ths {
            let t = (th.id() - self.main_id) as u8;
            k.push(0xFFFF_0000 | t as u32);
            k.push(self.cycles.get(&t).copied().unwrap_or(0));
            k.extend(th.verif_gc_key());
            if let Some(g) = self.garbage_at_start.get(&t) {
                k.push(0xFFFF_FFFE);
                k.extend(g.iter().copied());
            }
        }
        k
    }

    /// Cheap fingerprint of the mutator (must agree whenever two histories merge).
    pub fn mutator_key(&self) -> Vec<u64> {
        let mut k = vec![self.msteps as u64, self.host.emits.len() as u64, self.host.out.len() as u64];
        if let Some(rt) = &self.rt {
            let mut ths: Vec<_> = rt.verif_threads();
            ths.sort_by_key(|t| t.id());
            for th in ths {
                let (pc, sd, cd, done, err) = th.verif_mutator_key();
                k.extend([pc as u64, sd as u64, cd as u64, done as u64, err as u64]);
            }
        }
        k
    }

    pub fn outcome(&self) -> Outcome {
        Outcome { end: self.end.clone(), emits: self.host.emits.clone(), out: self.host.out.clone() }
    }

    /// safety invariant: nothing reachable has been reclaimed, and no fault occurred
    pub fn invariant(&self) -> Result<(), String> {
        if let Some(p) = &self.fault {
            return Err(format!("fault at {}: {}", p.site, p.msg));
        }
        if let Some(End::InternalError { text }) = &self.end {
            return Err(format!("VM internal error: {}", text.lines().next().unwrap_or("")));
        }
        let bad = self.rt().verif_reachable_reclaimed();
        if !bad.is_empty() {
            return Err(format!("reachable object(s) {bad:?} (allocation numbers) were reclaimed"));
        }
        Ok(())
    }
}

impl Drop for Sys<'_> {
    fn drop(&mut self) {
        if let Some(rt) = self.rt.take() {
            // dropping may itself trip a hook panic (double free): contain it
            let _ = drive::catch(move || drop(rt));
        }
    }
}

pub fn replay<'p>(prog: &'p Prog, h: &[Act]) -> Sys<'p> {
    let mut s = Sys::new(prog);
    for a in h {
        s.apply(*a);
    }
    s
}

/// The execution with collection disabled (manual mode, no collector action): the reference.
pub fn reference(prog: &Prog, max_steps: u32) -> (Outcome, u32) {
    let mut s = Sys::new(prog);
    while !s.terminal() && s.msteps < max_steps {
        s.apply(Act::M);
    }
    if !s.terminal() {
        s.end = Some(End::StepCap);
    }
    if let Some(p) = &s.fault {
        s.end = Some(End::Fault(p.clone()));
    } else if let Err(e) = s.invariant() {
        s.end = Some(End::InternalError { text: e });
    }
    (s.outcome(), s.msteps)
}

pub struct SearchStats {
    pub states: u64,
    pub transitions: u64,
    pub maximal_paths: u64,
    pub max_depth: usize,
    pub capped: bool,
    pub outcomes: HashMap<String, u64>,
}

pub struct Counterexample {
    pub history: Vec<Act>,
    pub what: String,
}

/// Breadth-first product search. `monitor` is called on every newly reached state (after the
/// built-in safety invariant) and may report a property-specific violation.
pub fn product_bfs(
    prog: &Prog,
    max_cycles: u32,
    state_cap: usize,
    reference_outcome: &Outcome,
    mut monitor: impl FnMut(&Sys, &[Act]) -> Result<(), String>,
) -> (SearchStats, Vec<Counterexample>, Vec<String>) {
    let mut stats = SearchStats { states: 0, transitions: 0, maximal_paths: 0, max_depth: 0, capped: false, outcomes: HashMap::new() };
    let mut cex: Vec<Counterexample> = vec![];
    let mut machinery: Vec<String> = vec![];
    let mut seen: HashMap<Vec<u32>, Vec<u64>> = HashMap::new();
    let mut frontier: VecDeque<Vec<Act>> = VecDeque::new();
    {
        let s = Sys::new(prog);
        seen.insert(s.key(), s.mutator_key());
        stats.states += 1;
        frontier.push_back(vec![]);
    }
    // horizon: collector steps never change what the mutator does (the merge argument), so every schedule
    // finishes after exactly as many mutator steps as the collection-disabled run; a state beyond that which
    // has not finished means a collector step changed the mutator's course (e.g. a lost message or wake-up)
    let horizon: Option<u32> = {
        let (o, n) = reference(prog, 1_000_000);
        if matches!(o.end, Some(End::StepCap)) { None } else { Some(n) }
    };
    'outer: while let Some(h) = frontier.pop_front() {
        let s = replay(prog, &h);
        let acts = s.enabled(max_cycles);
        drop(s);
        for a in acts {
            let mut h2 = h.clone();
            h2.push(a);
            let s2 = replay(prog, &h2);
            stats.transitions += 1;
            stats.max_depth = stats.max_depth.max(h2.len());
            if let Err(e) = s2.invariant().and_then(|_| monitor(&s2, &h2)) {
                if cex.len() < 5 {
                    cex.push(Counterexample { history: h2.clone(), what: e });
                }
                *stats.outcomes.entry("violation".into()).or_insert(0) += 1;
                continue; // do not expand violating states
            }
            if let Some(hz) = horizon {
                if !s2.terminal() && s2.msteps > hz {
                    if cex.len() < 5 {
                        cex.push(Counterexample {
                            history: h2.clone(),
                            what: format!(
                                "after {} mutator steps the program has not finished; the collection-disabled run finishes after {hz} steps, so a collector step changed the mutator's course (emits so far {:?})",
                                s2.msteps, s2.host.emits
                            ),
                        });
                    }
                    *stats.outcomes.entry("violation".into()).or_insert(0) += 1;
                    continue;
                }
            }
            if s2.terminal() {
                stats.maximal_paths += 1;
                let o = s2.outcome();
                *stats.outcomes.entry(o.end.as_ref().map(|e| e.class()).unwrap_or_default()).or_insert(0) += 1;
                if o != *reference_outcome {
                    if cex.len() < 5 {
                        cex.push(Counterexample {
                            history: h2.clone(),
                            what: format!(
                                "outcome differs from the collection-disabled run: {:?} vs reference {:?}",
                                (&o.end, &o.emits, &o.out),
                                (&reference_outcome.end, &reference_outcome.emits, &reference_outcome.out)
                            ),
                        });
                    }
                }
                // terminal states still count as states (merged on key)
            }
            let k = s2.key();
            let mk = s2.mutator_key();
            match seen.get(&k) {
                Some(prev) => {
                    if *prev != mk && machinery.len() < 3 {
                        machinery.push(format!(
                            "merge argument violated at {}: mutator fingerprints differ ({prev:?} vs {mk:?})",
                            fmt_hist(&h2)
                        ));
                    }
                }
                None => {
                    seen.insert(k, mk);
                    stats.states += 1;
                    if !s2.terminal() {
                        frontier.push_back(h2);
                    }
                    if seen.len() >= state_cap {
                        stats.capped = true;
                        break 'outer;
                    }
                }
            }
        }
    }
    (stats, cex, machinery)
}
