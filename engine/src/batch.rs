//! Dispatcher batching: many independent cases in one compiled program.
//!
//! Each case is the body of its own function `tK`; the program ends with
//! `match vh_next_int() { K -> tK() ... }`. Every case then runs in a fresh `Runtime` built from a
//! clone of the compiled program, so a runtime error or VM fault in one case cannot affect another.
//! A batch that does not compile is bisected down to the cases responsible.

use crate::drive::{self, COpts, Compiled, Emit, End, Input, ROpts, Src, StdHost};
use std::collections::VecDeque;

#[derive(Clone, Debug)]
pub struct Case {
    /// short unique description (used in reports and as the known-finding key text)
    pub name: String,
    /// top-level declarations this case needs; identical strings are emitted once per batch
    pub decls: Vec<String>,
    /// statements of the case's function body
    pub body: String,
    /// extra host inputs consumed by the case after the dispatcher index
    pub inputs: Vec<Input>,
}

impl Case {
    pub fn new(name: impl Into<String>, body: impl Into<String>) -> Case {
        Case { name: name.into(), decls: vec![], body: body.into(), inputs: vec![] }
    }
    pub fn decl(mut self, d: impl Into<String>) -> Case {
        self.decls.push(d.into());
        self
    }
    /// standalone program text equivalent to this case (for reports / replays)
    pub fn standalone(&self) -> String {
        program_text(std::slice::from_ref(self))
    }
}

pub fn program_text(cases: &[Case]) -> String {
    let mut s = String::from("use vh\n");
    let mut seen: Vec<&str> = vec![];
    for c in cases {
        for d in &c.decls {
            if !seen.contains(&d.as_str()) {
                seen.push(d);
                s.push_str(d);
                s.push('\n');
            }
        }
    }
    for (i, c) in cases.iter().enumerate() {
        s.push_str(&format!("fn t{i}() -> void {{\n{}\nnil\n}}\n", c.body));
    }
    s.push_str("match vh_next_int() {\n");
    for i in 0..cases.len() {
        s.push_str(&format!("{i} -> t{i}()\n"));
    }
    s.push_str("_ -> nil\n}\n");
    s
}

#[derive(Clone, Debug, PartialEq)]
pub struct Obs {
    pub emits: Vec<Emit>,
    pub out: String,
    pub end: End,
    pub steps: u64,
}
impl Obs {
    pub fn end_class(&self) -> String {
        self.end.class()
    }
}

pub enum CaseResult {
    Ran(Obs),
    /// the case (alone) does not compile: diagnostics text
    Diag(String),
    /// the compiler panicked on the case (alone)
    CompilerPanic(drive::PanicInfo),
}

fn run_compiled(prog: &abra_core::verif::CompiledProgram, table: &[String], idx: usize, c: &Case, ro: ROpts) -> Obs {
    let mut host = StdHost::default();
    let mut inputs: VecDeque<Input> = VecDeque::new();
    inputs.push_back(Input::Int(idx as i64));
    for i in &c.inputs {
        inputs.push_back(i.clone());
    }
    host.inputs = inputs;
    let r = drive::run(prog, table, host, ro);
    Obs { emits: r.host.emits, out: r.host.out, end: r.end, steps: r.steps }
}

/// Compile `cases` as one program (bisecting on failure) and run each; `results[i]` belongs to `cases[i]`.
pub fn run_batch(cases: &[Case], co: COpts, ro: ROpts) -> Vec<CaseResult> {
    let mut results: Vec<Option<CaseResult>> = (0..cases.len()).map(|_| None).collect();
    go(cases, 0, co, ro, &mut results);
    results.into_iter().map(|r| r.unwrap()).collect()
}

fn go(cases: &[Case], off: usize, co: COpts, ro: ROpts, results: &mut Vec<Option<CaseResult>>) {
    if cases.is_empty() {
        return;
    }
    let src = Src::with_vh(&program_text(cases));
    match drive::compile(&src, co) {
        Compiled::Ok(p) => {
            let table = src.host_table();
            for (i, c) in cases.iter().enumerate() {
                results[off + i] = Some(CaseResult::Ran(run_compiled(&p, &table, i, c, ro)));
            }
        }
        Compiled::Diag(d) => {
            if cases.len() == 1 {
                results[off] = Some(CaseResult::Diag(d));
            } else {
                let mid = cases.len() / 2;
                go(&cases[..mid], off, co, ro, results);
                go(&cases[mid..], off + mid, co, ro, results);
            }
        }
        Compiled::Panic(p) => {
            if cases.len() == 1 {
                results[off] = Some(CaseResult::CompilerPanic(p));
            } else {
                let mid = cases.len() / 2;
                go(&cases[..mid], off, co, ro, results);
                go(&cases[mid..], off + mid, co, ro, results);
            }
        }
    }
}

/// Abra source for an int literal that denotes `v` in expression position (parenthesised when negative).
pub fn int_lit(v: i64) -> String {
    if v < 0 { format!("({v})") } else { format!("{v}") }
}

/// Run `cases` in batches of `batch`, honouring the unit's case filter (replay / resume / isolate),
/// and hand each result to `judge` with the unit's current case set to `base + index`.
pub fn run_cases(
    out: &mut crate::fw::UnitOut,
    base: u64,
    cases: &[Case],
    batch: usize,
    co: COpts,
    ro: ROpts,
    mut judge: impl FnMut(&mut crate::fw::UnitOut, usize, &Case, &CaseResult),
) {
    let single = out.isolate || out.only_case.is_some();
    let bs = if single { 1 } else { batch.max(1) };
    let mut i = 0;
    while i < cases.len() {
        let j = (i + bs).min(cases.len());
        // select the cases of this chunk that pass the filter
        let mut sel: Vec<usize> = vec![];
        for k in i..j {
            if out.begin_case(base + k as u64) {
                sel.push(k);
            }
        }
        if !sel.is_empty() {
            if single {
                out.describe_case(&format!("{}\n{}", cases[sel[0]].name, cases[sel[0]].standalone()));
            }
            let chunk: Vec<Case> = sel.iter().map(|k| cases[*k].clone()).collect();
            let res = run_batch(&chunk, co, ro);
            for (n, k) in sel.iter().enumerate() {
                out.begin_case_quiet(base + *k as u64);
                out.evaluations += 1;
                judge(out, *k, &cases[*k], &res[n]);
            }
        }
        i = j;
    }
}

/// Expected observation of a case, as predicted by a reference model.
#[derive(Clone, Debug, PartialEq)]
pub enum Expect {
    /// runs to completion; host emits (vh_emit_*) and printed text are exactly these
    Done { emits: Vec<Emit>, out: String },
    /// stops with the documented runtime error `kind` ("panic", "array-oob", "overflow", "div-zero")
    /// after producing exactly these emits / this text
    Error { kind: &'static str, emits: Vec<Emit>, out: String },
    /// the compiler must reject the case with diagnostics (not a panic)
    CompileError,
    /// the reference manual does not determine the outcome: nothing is asserted except "no fault"
    Unspecified,
}
impl Expect {
    pub fn emits(e: Vec<Emit>) -> Expect {
        Expect::Done { emits: e, out: String::new() }
    }
    pub fn out(s: impl Into<String>) -> Expect {
        Expect::Done { emits: vec![], out: s.into() }
    }
    pub fn error(kind: &'static str) -> Expect {
        Expect::Error { kind, emits: vec![], out: String::new() }
    }
}

/// Compare a case result with the model's expectation; records the outcome class and, on
/// disagreement, a violation keyed by `input:<hash of case name>` (+ the panic site if any).
/// Returns true when the case agreed with the model.
pub fn judge(out: &mut crate::fw::UnitOut, c: &Case, r: &CaseResult, exp: &Expect) -> bool {
    use serde_json::json;
    let mut fail = |out: &mut crate::fw::UnitOut, observed: String, extra: Vec<String>| {
        let mut keys = vec![format!("input:{}", crate::fw::hkey(&c.name))];
        keys.extend(extra);
        out.class("violation");
        out.violation(
            keys,
            format!("{}: expected {:?}, observed {}", c.name, exp, observed),
            json!({"case": c.name, "program": c.standalone(), "inputs": format!("{:?}", c.inputs),
                   "expected": format!("{exp:?}"), "observed": observed}),
        );
        false
    };
    match r {
        CaseResult::Diag(d) => {
            if *exp == Expect::CompileError {
                out.class("rejected-as-expected");
                true
            } else {
                fail(out, format!("compile diagnostics: {d}"), vec![])
            }
        }
        CaseResult::CompilerPanic(p) => {
            fail(out, format!("compiler panic at {}: {}", p.site, p.msg), vec![p.site_key()])
        }
        CaseResult::Ran(o) => {
            if let End::Fault(p) = &o.end {
                return fail(out, format!("VM fault (Rust panic) at {}: {}", p.site, p.msg), vec![p.site_key()]);
            }
            if let End::InternalError { text } = &o.end {
                return fail(out, format!("VM internal error: {}", text.lines().next().unwrap_or("")), vec![]);
            }
            match exp {
                Expect::Unspecified => {
                    out.class("unspecified");
                    true
                }
                Expect::CompileError => fail(out, format!("accepted and ran: end={:?} emits={:?} out={:?}", o.end, o.emits, o.out), vec![]),
                Expect::Done { emits, out: text } => {
                    if o.end == End::Done && o.emits == *emits && o.out == *text {
                        out.class("done");
                        true
                    } else {
                        fail(out, format!("end={} emits={:?} out={:?}", short_end(&o.end), o.emits, o.out), vec![])
                    }
                }
                Expect::Error { kind, emits, out: text } => {
                    let ok = matches!(&o.end, End::Error { kind: k, .. } if k == kind) && o.emits == *emits && o.out == *text;
                    if ok {
                        out.class(&format!("error:{kind}"));
                        true
                    } else {
                        fail(out, format!("end={} emits={:?} out={:?}", short_end(&o.end), o.emits, o.out), vec![])
                    }
                }
            }
        }
    }
}

pub fn short_end(e: &End) -> String {
    match e {
        End::Error { kind, text } => format!("error:{kind} ({})", text.lines().next().unwrap_or("")),
        other => other.class(),
    }
}
