//! Hand-written program corpus with hand-computed expected observations, used by the embedder
//! exploration properties (C10, C11). Each program exercises one kind of suspending / resumable /
//! status-relevant behaviour.

use crate::drive::{Emit, Input, Top};

pub struct P {
    pub name: &'static str,
    pub text: String,
    pub inputs: Vec<Input>,
    pub lines: Vec<String>,
    /// expected end class: "done" | "error:<kind>"
    pub end: &'static str,
    pub emits: Vec<Emit>,
    pub out: &'static str,
    /// expected final value for a final non-void expression statement
    pub top: Option<Top>,
    /// failing line for runtime errors (1-based, in main.abra)
    pub err_line: Option<u32>,
    /// Kahn-style task program (each channel one writer / one reader, one printing task)
    pub tasks: bool,
}

fn i(v: &[i64]) -> Vec<Emit> {
    v.iter().map(|x| Emit::Int(*x)).collect()
}
fn s(x: &str) -> Emit {
    Emit::Str(x.into())
}

pub fn programs() -> Vec<P> {
    let mut v = vec![];
    let mut add = |name: &'static str, body: &str, inputs: Vec<Input>, lines: Vec<&str>, end: &'static str, emits: Vec<Emit>, out: &'static str, top: Option<Top>, err_line: Option<u32>, tasks: bool| {
        v.push(P {
            name,
            text: format!("use vh\n{body}"),
            inputs,
            lines: lines.into_iter().map(|x| x.to_string()).collect(),
            end,
            emits,
            out,
            top,
            err_line,
            tasks,
        });
    };
    // line 1 is `use vh`; body starts at line 2
    add("arith-final-int", "let x = 6\nlet y = 7\nx * y\n", vec![], vec![], "done", vec![], "", Some(Top::Int(42)), None, false);
    add("final-bool", "let x = 3\nx < 4\n", vec![], vec![], "done", vec![], "", Some(Top::Bool(true)), None, false);
    add("final-string", "let a = \"ab\"\na .. \"cd\"\n", vec![], vec![], "done", vec![], "", Some(Top::Str("abcd".into())), None, false);
    add("final-value-followed-by-a-function-definition", "let a = 10\nlet b = a + 31\nb + 1\nfn later(x: int) -> int = x + 1\n", vec![], vec![], "done", vec![], "", Some(Top::Int(42)), None, false);
    add("final-value-followed-by-type-and-extend", "let a = 10\nvh_emit_int(a)\na * 4 + 2\ntype Zz = {\n  v: int\n}\nextend Zz {\n  fn get(self) -> int = self.v\n}\n", vec![], vec![], "done", i(&[10]), "", Some(Top::Int(42)), None, false);
    add("final-string-between-definitions", "fn early() -> string = \"e\"\nlet s = early() .. \"x\"\ns .. \"y\"\nfn later() -> int = 1\n", vec![], vec![], "done", vec![], "", Some(Top::Str("exy".into())), None, false);
    add("print-then-value", "println(\"hi\")\nprint(12)\n5 + 5\n", vec![], vec![], "done", vec![], "hi\n12", Some(Top::Int(10)), None, false);
    add("emit-loop", "var k = 0\nwhile k < 3 {\n  vh_emit_int(k)\n  k = k + 1\n}\n", vec![], vec![], "done", i(&[0, 1, 2]), "", None, None, false);
    add("readline-echo", "let l = readline()\nlet m = readline()\nprintln(m .. l)\n", vec![], vec!["one", "two"], "done", vec![], "twoone\n", None, None, false);
    add("host-arity", "let a = vh_h0()\nlet b = vh_h1(a)\nlet c = vh_h2(b, \"s\")\nlet d = vh_h3(3, 2.5, true)\nvh_emit_int(a)\nvh_emit_int(b)\nvh_emit_str(c)\nvh_emit_int(d)\n",
        vec![Input::Int(4)], vec![], "done",
        vec![s("h0"), s("h1"), Emit::Int(4), s("h2"), Emit::Int(41), s("s"), s("h3"), Emit::Int(3), Emit::Float(2.5f64.to_bits()), Emit::Bool(true), Emit::Int(4), Emit::Int(41), s("s<41>"), Emit::Int(9)],
        "", None, None, false);
    add("host-through-function-values", "let f2 = vh_h2\nlet c = f2(41, \"s\")\nfn ap3(f: (int, float, bool) -> int, a: int) -> int = f(a, 2.5, true)\nlet d = ap3(vh_h3, 3)\nlet f1 = vh_h1\nlet b = f1(4)\nlet f0 = vh_h0\nlet a = f0()\nlet fs = [vh_h1, vh_h1]\nlet g1 = fs[1]\nlet e = g1(7)\nvh_emit_str(c)\nvh_emit_int(d)\nvh_emit_int(b)\nvh_emit_int(a)\nvh_emit_int(e)\n",
        vec![Input::Int(4)], vec![], "done",
        vec![s("h2"), Emit::Int(41), s("s"), s("h3"), Emit::Int(3), Emit::Float(2.5f64.to_bits()), Emit::Bool(true), s("h1"), Emit::Int(4), s("h0"), s("h1"), Emit::Int(7), s("s<41>"), Emit::Int(9), Emit::Int(41), Emit::Int(4), Emit::Int(71)],
        "", None, None, false);
    add("host-void-through-function-value", "let e = vh_emit_int\nlet r = 10 + {\n  e(7)\n  5\n}\nvh_emit_int(r)\nvar k = 0\nwhile k < 3 {\n  e(k)\n  k = k + 1\n}\nr + 1\n", vec![], vec![], "done",
        i(&[7, 15, 0, 1, 2]), "", Some(Top::Int(16)), None, false);
    add("host-in-expression", "let r = vh_h1(1) + vh_h1(2) * vh_h1(3)\nvh_emit_int(r)\n", vec![], vec![], "done",
        vec![s("h1"), Emit::Int(1), s("h1"), Emit::Int(2), s("h1"), Emit::Int(3), Emit::Int(11 + 21 * 31)], "", None, None, false);
    add("string-compare-long", "let a = \"abcdefghij\" .. \"klmnopqrst\"\nlet b = \"abcdefghij\" .. \"klmnopqrsu\"\nvh_emit_bool(a < b)\nvh_emit_bool(a == b)\nvh_emit_bool(a >= b)\nvh_emit_str(a .. b)\n", vec![], vec![], "done",
        vec![Emit::Bool(true), Emit::Bool(false), Emit::Bool(false), s("abcdefghijklmnopqrstabcdefghijklmnopqrsu")], "", None, None, false);
    add("recursion-fib", "fn fib(n: int) -> int {\n  if n < 2 {\n    n\n  } else {\n    fib(n - 1) + fib(n - 2)\n  }\n}\nfib(7)\n", vec![], vec![], "done", vec![], "", Some(Top::Int(13)), None, false);
    add("arrays-and-structs", "type Pt = {\n  x: int\n  y: int\n}\nlet p = Pt(1, 2)\nlet a = [p.x, p.y]\na.push(3)\np.x = a.len()\nvh_emit_int(p.x)\nvh_emit_arr(a)\n", vec![], vec![], "done", vec![Emit::Int(3), Emit::Arr(vec![1, 2, 3])], "", None, None, false);
    add("match-option", "fn half(n: int) -> option<int> {\n  if n % 2 == 0 {\n    .some(n / 2)\n  } else {\n    .none\n  }\n}\nmatch half(10) {\n  .some(k) -> vh_emit_int(k)\n  .none -> vh_emit_int(0 - 1)\n}\nmatch half(7) {\n  .some(k) -> vh_emit_int(k)\n  .none -> vh_emit_int(0 - 1)\n}\n", vec![], vec![], "done", i(&[5, -1]), "", None, None, false);
    add("lambda-capture", "let base = 10\nlet addb = x -> x + base\nvh_emit_int(addb(5))\nvh_emit_int(addb(6))\n", vec![], vec![], "done", i(&[15, 16]), "", None, None, false);
    add("for-array-sum", "var sum = 0\nfor x in [4, 5, 6] {\n  sum = sum + x\n}\nvh_emit_int(sum)\nsum\n", vec![], vec![], "done", i(&[15]), "", Some(Top::Int(15)), None, false);
    add("error-div-zero", "let a = 4\nlet b = a - 4\nvh_emit_int(1)\nlet c = a / b\nvh_emit_int(c)\n", vec![], vec![], "error:div-zero", i(&[1]), "", None, Some(5), false);
    add("error-oob-in-function", "fn get(a: array<int>, k: int) -> int {\n  a[k]\n}\nlet a = [1, 2]\nvh_emit_int(get(a, 1))\nvh_emit_int(get(a, 2))\n", vec![], vec![], "error:array-oob", i(&[2]), "", None, Some(3), false);
    add("error-overflow", "let m = 9223372036854775807\nprintln(\"before\")\nlet n = m + 1\nprintln(n)\n", vec![], vec![], "error:overflow", vec![], "before\n", None, Some(4), false);
    add("error-panic", "println(\"a\")\npanic(\"boom\")\nprintln(\"b\")\n", vec![], vec![], "error:panic", vec![], "a\n", None, Some(3), false);
    add("error-unwrap-none", "let o: option<int> = option.none\nvh_emit_int(7)\nlet v = o!\nvh_emit_int(v)\n", vec![], vec![], "error:panic", i(&[7]), "", None, None, false);
    // Kahn-style task programs
    add("task-pipeline", "let jobs: channel<int> = channel()\nlet results: channel<int> = channel()\ntask {\n  var k = 0\n  while k < 3 {\n    let n = jobs.read()\n    results.write(n * 2)\n    k = k + 1\n  }\n}\nvar i = 0\nwhile i < 3 {\n  jobs.write(i)\n  i = i + 1\n}\nvar sum = 0\nvar j = 0\nwhile j < 3 {\n  sum = sum + results.read()\n  j = j + 1\n}\nprintln(sum)\nsum\n", vec![], vec![], "done", vec![], "6\n", Some(Top::Int(6)), None, true);
    add("task-main-finishes-first", "let c: channel<int> = channel()\ntask {\n  var k = 0\n  while k < 100 {\n    k = k + 1\n  }\n  c.write(k)\n}\nprintln(\"main done\")\n3\n", vec![], vec![], "done", vec![], "main done\n", Some(Top::Int(3)), None, true);
    add("task-blocked-forever", "let c: channel<int> = channel()\ntask {\n  let x = c.read()\n  println(x)\n}\nprintln(\"m\")\n8\n", vec![], vec![], "done", vec![], "m\n", Some(Top::Int(8)), None, true);
    add("task-host-call-in-task", "let done: channel<int> = channel()\ntask {\n  let r = vh_h1(5)\n  done.write(r)\n}\nlet v = done.read()\nvh_emit_int(v)\n", vec![], vec![], "done", vec![s("h1"), Emit::Int(5), Emit::Int(51)], "", None, None, true);
    add("task-strings-over-channel", "let c: channel<string> = channel()\ntask {\n  c.write(\"ab\" .. \"cd\")\n  c.write(\"ef\" .. \"gh\")\n}\nlet a = c.read()\nlet b = c.read()\nprintln(a .. b)\n", vec![], vec![], "done", vec![], "abcdefgh\n", None, None, true);
    add("task-error-in-main-while-task-runs", "let c: channel<int> = channel()\ntask {\n  var k = 0\n  while k < 50 {\n    k = k + 1\n  }\n  c.write(k)\n}\nlet a = [1]\nprintln(\"x\")\nlet z = a[3]\nprintln(z)\n", vec![], vec![], "error:array-oob", vec![], "x\n", None, Some(12), true);
    v
}
