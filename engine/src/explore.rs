//! Generic explorers.

use crate::fw::UnitOut;
use std::collections::{HashSet, VecDeque};
use std::hash::Hash;

/// Breadth-first exploration of operation histories with state merging.
///
/// * A state is the history that reaches it. `key(history)` is a canonical fingerprint computed
///   from the history alone (never from the implementation), so the search order and the case
///   numbering do not depend on the subject and a crashed case can be skipped on resume.
/// * Every transition `history + op` (also those whose target key was already seen) is executed
///   on the real implementation by `exec`, which replays the whole history on a fresh object and
///   compares with the model on every step.
/// * `key` returns `None` to prune a history that is outside the alphabet's side conditions.
///
/// Case index = transition number in BFS order.
pub fn opseq_bfs<Op: Clone, K: Hash + Eq>(
    init: Vec<Op>,
    ops: &[Op],
    depth: usize,
    key: impl Fn(&[Op]) -> Option<K>,
    mut exec: impl FnMut(&[Op], &mut UnitOut),
    out: &mut UnitOut,
    state_cap: usize,
) {
    let mut seen: HashSet<K> = HashSet::new();
    let mut frontier: VecDeque<Vec<Op>> = VecDeque::new();
    let mut case: u64 = 0;
    if let Some(k) = key(&init) {
        seen.insert(k);
        if out.begin_case(case) {
            exec(&init, out);
            out.evaluations += 1;
            out.traces += 1;
        }
        case += 1;
        frontier.push_back(init.clone());
        out.states += 1;
    }
    let base = init.len();
    while let Some(h) = frontier.pop_front() {
        if h.len() - base >= depth {
            continue;
        }
        for op in ops {
            let mut h2 = h.clone();
            h2.push(op.clone());
            let Some(k) = key(&h2) else { continue };
            out.transitions += 1;
            if out.begin_case(case) {
                exec(&h2, out);
                out.evaluations += 1;
                out.traces += 1;
            }
            case += 1;
            if seen.insert(k) {
                out.states += 1;
                if seen.len() >= state_cap {
                    out.capped = true;
                    out.notes.push(format!("state cap {state_cap} reached"));
                    return;
                }
                frontier.push_back(h2);
            }
        }
    }
}

/// All sequences of length exactly `len` over `0..k`, visited in lexicographic order.
pub fn for_each_seq(k: usize, len: usize, mut f: impl FnMut(&[usize])) {
    let mut s = vec![0usize; len];
    if k == 0 && len > 0 {
        return;
    }
    loop {
        f(&s);
        let mut i = len;
        loop {
            if i == 0 {
                return;
            }
            i -= 1;
            s[i] += 1;
            if s[i] < k {
                break;
            }
            s[i] = 0;
        }
    }
}
