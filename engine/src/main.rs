#![allow(dead_code)]
mod alloc_count;
mod batch;
mod corpus;
mod drive;
mod embed;
mod explore;
mod fw;
mod props;
mod sched;
mod ugen;
mod umodel;

use fw::{Prop, RunCfg, Tier};

#[global_allocator]
static GLOBAL: alloc_count::Counting = alloc_count::Counting;

fn usage() -> ! {
    eprintln!("usage: engine run <ID> <quick|thorough> | engine worker <ID> <tier> | engine replay <ID> <file> | engine list");
    std::process::exit(2)
}

fn main() {
    let args: Vec<String> = std::env::args().collect();
    if args.len() < 2 {
        usage();
    }
    drive::install_panic_hook();
    let all = props::all();
    let find = |id: &str| -> &dyn Prop {
        match all.iter().find(|p| p.id() == id) {
            Some(p) => p.as_ref(),
            None => {
                eprintln!("unknown property {id}");
                std::process::exit(2)
            }
        }
    };
    match args[1].as_str() {
        "list" => {
            for p in &all {
                println!("{} {} quick_units={} thorough_units={}", p.id(), p.level(), p.n_units(Tier::Quick), p.n_units(Tier::Thorough));
            }
        }
        "worker" => {
            if args.len() < 4 {
                usage();
            }
            let p = find(&args[2]);
            let tier = Tier::parse(&args[3]).unwrap_or_else(|| usage());
            fw::worker_main(p, tier);
        }
        "run" => {
            if args.len() < 4 {
                usage();
            }
            let p = find(&args[2]);
            let tier = Tier::parse(&args[3]).unwrap_or_else(|| usage());
            let seed = std::env::var("VERIF_SEED").ok().and_then(|s| s.parse().ok()).unwrap_or(0);
            let workers = std::env::var("VERIF_WORKERS")
                .ok()
                .and_then(|s| s.parse().ok())
                .unwrap_or_else(|| std::thread::available_parallelism().map(|n| n.get()).unwrap_or(8));
            let wall_cap_s = std::env::var("VERIF_WALL_CAP_S")
                .ok()
                .and_then(|s| s.parse().ok())
                .unwrap_or(tier.pick(240.0, 3300.0));
            let code = fw::run_property(p, &RunCfg { tier, seed, workers, wall_cap_s });
            std::process::exit(code);
        }
        "replay" => {
            if args.len() < 4 {
                usage();
            }
            let p = find(&args[2]);
            std::process::exit(fw::replay(p, &args[3]));
        }
        _ => usage(),
    }
}
