//! Reference interpreter of the documented Abra semantics over the U-prog AST (ugen.rs).
//!
//! Written from /repo/book/src/language_reference/*.md and the public contracts of the prelude;
//! deliberately naive:
//! * environment = stack of scopes (block, loop body, match arm, function and lambda bodies open
//!   scopes; `let x = e` evaluates `e` before `x` is (re)bound, so it sees the outer `x`);
//! * arrays and structs are references (`Rc<RefCell<..>>`): aliases observe mutation; everything
//!   else (ints, bools, strings, nil, tuples, enum values, function values) is a value;
//! * operands, call arguments, tuple / array / constructor elements are evaluated strictly left to
//!   right; `and` / `or` short-circuit;
//! * integer arithmetic is done in i128 and range-checked (`/` truncates, `%` is Euclidean, `^` is
//!   exact; a negative exponent is not specified);
//! * the documented runtime errors are `Err(kind)` with kind "panic" / "array-oob" / "overflow" /
//!   "div-zero"; printed output and host emits made before the error are part of the outcome;
//! * a lambda captures the VALUES of the visible variables when it is created (an array value is a
//!   reference, so the array itself stays shared); a named function sees only its parameters;
//! * text rendering: ints decimal, `true`/`false`, `nil`, strings verbatim, `[ a, b ]`, `(a, b)`,
//!   `some(x)` / `none`, `ok(x)` / `err(e)`; the rendering of an EMPTY array is not specified;
//! * anything the manual does not determine evaluates to `Unspecified`, and then nothing is asserted
//!   about the program except the absence of faults.

use crate::drive::Emit;
use crate::ugen::{D, E, FnBody, P, Prog, S};
use std::cell::RefCell;
use std::collections::{HashMap, VecDeque};
use std::rc::Rc;

#[derive(Clone, Debug)]
pub enum V {
    Int(i64),
    Bool(bool),
    Str(String),
    Nil,
    Arr(Rc<RefCell<Vec<V>>>),
    Tup(Vec<V>),
    /// struct instance: type name, fields in declaration order (by reference)
    Struct(String, Rc<RefCell<Vec<V>>>),
    /// enum value: variant name, payload (by value)
    Enum(String, Vec<V>),
    Clo(Rc<Closure>),
    Fn(String),
}

#[derive(Debug)]
pub struct Closure {
    params: Vec<String>,
    body: E,
    env: HashMap<String, V>,
}

#[derive(Clone, Debug)]
pub enum Flow {
    Err(&'static str),
    Break,
    Continue,
    Return(V),
    Unspec(String),
}

type R<T> = Result<T, Flow>;

#[derive(Clone, Debug, PartialEq)]
pub enum ModelEnd {
    Done,
    Err(&'static str),
    Unspecified(String),
}

#[derive(Clone, Debug)]
pub struct Outcome {
    pub emits: Vec<Emit>,
    pub out: String,
    pub end: ModelEnd,
    /// statements + expressions evaluated (the model's transitions)
    pub steps: u64,
}

struct Env {
    scopes: Vec<HashMap<String, V>>,
}

impl Env {
    fn new() -> Env {
        Env { scopes: vec![HashMap::new()] }
    }
    fn get(&self, n: &str) -> Option<V> {
        for s in self.scopes.iter().rev() {
            if let Some(v) = s.get(n) {
                return Some(v.clone());
            }
        }
        None
    }
    fn bind(&mut self, n: &str, v: V) {
        self.scopes.last_mut().unwrap().insert(n.to_string(), v);
    }
    fn set(&mut self, n: &str, v: V) -> bool {
        for s in self.scopes.iter_mut().rev() {
            if let Some(slot) = s.get_mut(n) {
                *slot = v;
                return true;
            }
        }
        false
    }
    fn snapshot(&self) -> HashMap<String, V> {
        let mut m = HashMap::new();
        for s in &self.scopes {
            for (k, v) in s {
                m.insert(k.clone(), v.clone());
            }
        }
        m
    }
}

struct Interp<'a> {
    fns: HashMap<&'a str, &'a D>,
    structs: HashMap<&'a str, Vec<String>>,
    emits: Vec<Emit>,
    out: String,
    inputs: VecDeque<i64>,
    steps: u64,
    fuel: u64,
    depth: u32,
}

pub fn arith(op: &str, a: i64, b: i64) -> R<i64> {
    let (x, y) = (a as i128, b as i128);
    let fit = |r: i128| if r >= i64::MIN as i128 && r <= i64::MAX as i128 { Ok(r as i64) } else { Err(Flow::Err("overflow")) };
    match op {
        "+" => fit(x + y),
        "-" => fit(x - y),
        "*" => fit(x * y),
        "/" => {
            if y == 0 {
                Err(Flow::Err("div-zero"))
            } else {
                fit(x / y)
            }
        }
        "%" => {
            if y == 0 {
                Err(Flow::Err("div-zero"))
            } else {
                fit(x.rem_euclid(y))
            }
        }
        "^" => {
            if y < 0 {
                return Err(Flow::Unspec("integer power with a negative exponent".into()));
            }
            let mut r: i128 = 1;
            let mut k = 0;
            while k < y {
                if x == 0 || x == 1 {
                    return Ok(if x == 0 { 0 } else { 1 });
                }
                if x == -1 {
                    return Ok(if y % 2 == 0 { 1 } else { -1 });
                }
                r *= x;
                if r > i64::MAX as i128 || r < i64::MIN as i128 {
                    // |x| >= 2, so the magnitude only grows from here
                    return Err(Flow::Err("overflow"));
                }
                k += 1;
            }
            fit(r)
        }
        _ => panic!("umodel: unknown arithmetic operator {op}"),
    }
}

impl<'a> Interp<'a> {
    fn tick(&mut self) -> R<()> {
        self.steps += 1;
        if self.steps > self.fuel {
            return Err(Flow::Unspec("model-out-of-fuel".into()));
        }
        Ok(())
    }

    fn render(&self, v: &V) -> R<String> {
        Ok(match v {
            V::Int(i) => i.to_string(),
            V::Bool(b) => b.to_string(),
            V::Str(s) => s.clone(),
            V::Nil => "nil".into(),
            V::Arr(a) => {
                let a = a.borrow();
                if a.is_empty() {
                    return Err(Flow::Unspec("rendering of an empty array".into()));
                }
                let mut parts = vec![];
                for x in a.iter() {
                    parts.push(self.render(x)?);
                }
                format!("[ {} ]", parts.join(", "))
            }
            V::Tup(a) => {
                let mut parts = vec![];
                for x in a.iter() {
                    parts.push(self.render(x)?);
                }
                format!("({})", parts.join(", "))
            }
            V::Enum(n, p) if (n == "some" || n == "ok" || n == "err") && p.len() == 1 => format!("{n}({})", self.render(&p[0])?),
            V::Enum(n, p) if n == "none" && p.is_empty() => "none".into(),
            other => return Err(Flow::Unspec(format!("rendering of {other:?}"))),
        })
    }

    fn equal(&self, a: &V, b: &V) -> R<bool> {
        Ok(match (a, b) {
            (V::Int(x), V::Int(y)) => x == y,
            (V::Bool(x), V::Bool(y)) => x == y,
            (V::Str(x), V::Str(y)) => x == y,
            (V::Nil, V::Nil) => true,
            (V::Tup(x), V::Tup(y)) if x.len() == y.len() => {
                // documented as a conjunction of the component equalities (short-circuit is unobservable: no effects)
                for (p, q) in x.iter().zip(y.iter()) {
                    if !self.equal(p, q)? {
                        return Ok(false);
                    }
                }
                true
            }
            (V::Arr(x), V::Arr(y)) => {
                let (x, y) = (x.borrow(), y.borrow());
                if x.len() != y.len() {
                    return Ok(false);
                }
                for (p, q) in x.iter().zip(y.iter()) {
                    if !self.equal(p, q)? {
                        return Ok(false);
                    }
                }
                true
            }
            _ => return Err(Flow::Unspec(format!("equality of {a:?} and {b:?}"))),
        })
    }

    fn less(&self, a: &V, b: &V) -> R<std::cmp::Ordering> {
        Ok(match (a, b) {
            (V::Int(x), V::Int(y)) => x.cmp(y),
            (V::Str(x), V::Str(y)) => x.as_bytes().cmp(y.as_bytes()),
            _ => return Err(Flow::Unspec(format!("ordering of {a:?} and {b:?}"))),
        })
    }

    fn binop(&mut self, op: &str, a: V, b: V) -> R<V> {
        match op {
            "+" | "-" | "*" | "/" | "%" | "^" => match (a, b) {
                (V::Int(x), V::Int(y)) => Ok(V::Int(arith(op, x, y)?)),
                (a, b) => panic!("umodel: ill-typed arithmetic {a:?} {op} {b:?}"),
            },
            "==" => Ok(V::Bool(self.equal(&a, &b)?)),
            "!=" => Ok(V::Bool(!self.equal(&a, &b)?)),
            "<" => Ok(V::Bool(self.less(&a, &b)?.is_lt())),
            "<=" => Ok(V::Bool(self.less(&a, &b)?.is_le())),
            ">" => Ok(V::Bool(self.less(&a, &b)?.is_gt())),
            ">=" => Ok(V::Bool(self.less(&a, &b)?.is_ge())),
            ".." => Ok(V::Str(format!("{}{}", self.render(&a)?, self.render(&b)?))),
            _ => panic!("umodel: unknown operator {op}"),
        }
    }

    fn matches(&self, p: &P, v: &V, binds: &mut Vec<(String, V)>) -> R<bool> {
        Ok(match (p, v) {
            (P::Wild, _) => true,
            (P::Bind(n), v) => {
                binds.push((n.clone(), v.clone()));
                true
            }
            (P::Int(a), V::Int(b)) => a == b,
            (P::Bool(a), V::Bool(b)) => a == b,
            (P::Str(a), V::Str(b)) => a == b,
            (P::Nil, V::Nil) => true,
            (P::Tup(ps), V::Tup(vs)) if ps.len() == vs.len() => {
                for (p, v) in ps.iter().zip(vs.iter()) {
                    if !self.matches(p, v, binds)? {
                        return Ok(false);
                    }
                }
                true
            }
            (P::Variant(n, ps), V::Enum(m, vs)) => {
                if n != m {
                    return Ok(false);
                }
                if ps.len() != vs.len() {
                    panic!("umodel: variant pattern arity {p:?} vs {v:?}");
                }
                for (p, v) in ps.iter().zip(vs.iter()) {
                    if !self.matches(p, v, binds)? {
                        return Ok(false);
                    }
                }
                true
            }
            (P::Struct(n, ps), V::Struct(m, vs)) if n == m => {
                let vs = vs.borrow();
                for (p, v) in ps.iter().zip(vs.iter()) {
                    if !self.matches(p, v, binds)? {
                        return Ok(false);
                    }
                }
                true
            }
            (p, v) => panic!("umodel: ill-typed pattern {p:?} against {v:?}"),
        })
    }

    fn bind_pat(&self, env: &mut Env, p: &P, v: &V) -> R<()> {
        let mut b = vec![];
        if !self.matches(p, v, &mut b)? {
            return Err(Flow::Unspec("refutable pattern in a binding did not match".into()));
        }
        for (n, v) in b {
            env.bind(&n, v);
        }
        Ok(())
    }

    fn block(&mut self, env: &mut Env, b: &[S]) -> R<V> {
        env.scopes.push(HashMap::new());
        let r = self.block_inner(env, b);
        env.scopes.pop();
        r
    }

    fn block_inner(&mut self, env: &mut Env, b: &[S]) -> R<V> {
        let mut last = V::Nil;
        for (i, s) in b.iter().enumerate() {
            last = V::Nil;
            match s {
                S::Expr(e) if i == b.len() - 1 => last = self.eval(env, e)?,
                s => self.exec(env, s)?,
            }
        }
        Ok(last)
    }

    fn call_fn(&mut self, name: &str, args: Vec<V>) -> R<V> {
        let d = *self.fns.get(name).unwrap_or_else(|| panic!("umodel: unknown function {name}"));
        let D::Fn { params, body, .. } = d else { unreachable!() };
        assert_eq!(params.len(), args.len(), "umodel: arity of {name}");
        let mut env = Env::new();
        for ((n, _), v) in params.iter().zip(args) {
            env.bind(n, v);
        }
        self.depth += 1;
        if self.depth > 200 {
            return Err(Flow::Unspec("model-recursion-depth".into()));
        }
        let r = match body {
            FnBody::Expr(e) => self.eval(&mut env, e),
            FnBody::Block(b) => self.block_inner(&mut env, b),
        };
        self.depth -= 1;
        match r {
            Ok(v) => Ok(v),
            Err(Flow::Return(v)) => Ok(v),
            Err(Flow::Break) | Err(Flow::Continue) => panic!("umodel: break/continue escaped function {name}"),
            Err(e) => Err(e),
        }
    }

    fn call_value(&mut self, f: V, args: Vec<V>) -> R<V> {
        match f {
            V::Fn(n) => self.call_fn(&n, args),
            V::Clo(c) => {
                let mut env = Env { scopes: vec![c.env.clone(), HashMap::new()] };
                assert_eq!(c.params.len(), args.len(), "umodel: lambda arity");
                for (n, v) in c.params.iter().zip(args) {
                    env.bind(n, v);
                }
                self.depth += 1;
                if self.depth > 200 {
                    return Err(Flow::Unspec("model-recursion-depth".into()));
                }
                let r = self.eval(&mut env, &c.body);
                self.depth -= 1;
                match r {
                    Err(Flow::Return(v)) => Ok(v),
                    Err(Flow::Break) | Err(Flow::Continue) => panic!("umodel: break/continue escaped lambda"),
                    r => r,
                }
            }
            other => panic!("umodel: call of non-function {other:?}"),
        }
    }

    fn eval_list(&mut self, env: &mut Env, es: &[E]) -> R<Vec<V>> {
        let mut v = vec![];
        for e in es {
            v.push(self.eval(env, e)?);
        }
        Ok(v)
    }

    fn index(&self, a: &V, i: &V) -> R<V> {
        match (a, i) {
            (V::Arr(a), V::Int(i)) => {
                let a = a.borrow();
                if *i < 0 || *i as usize >= a.len() {
                    Err(Flow::Err("array-oob"))
                } else {
                    Ok(a[*i as usize].clone())
                }
            }
            _ => panic!("umodel: ill-typed index {a:?}[{i:?}]"),
        }
    }

    fn field_index(&self, sname: &str, f: &str) -> usize {
        if sname == "range" {
            return if f == "begin" { 0 } else { 1 };
        }
        self.structs.get(sname).and_then(|fs| fs.iter().position(|x| x == f)).unwrap_or_else(|| panic!("umodel: no field {f} in {sname}"))
    }

    fn eval(&mut self, env: &mut Env, e: &E) -> R<V> {
        self.tick()?;
        match e {
            E::Int(v) => Ok(V::Int(*v)),
            E::Bool(b) => Ok(V::Bool(*b)),
            E::Str(s) => Ok(V::Str(s.clone())),
            E::Nil => Ok(V::Nil),
            E::Var(n) => {
                if let Some(v) = env.get(n) {
                    return Ok(v);
                }
                if self.fns.contains_key(n.as_str()) {
                    return Ok(V::Fn(n.clone()));
                }
                panic!("umodel: unbound variable {n}");
            }
            E::Bin(op, a, b) => match op.as_str() {
                "and" => match self.eval(env, a)? {
                    V::Bool(false) => Ok(V::Bool(false)),
                    V::Bool(true) => self.eval(env, b),
                    o => panic!("umodel: and on {o:?}"),
                },
                "or" => match self.eval(env, a)? {
                    V::Bool(true) => Ok(V::Bool(true)),
                    V::Bool(false) => self.eval(env, b),
                    o => panic!("umodel: or on {o:?}"),
                },
                _ => {
                    let x = self.eval(env, a)?;
                    let y = self.eval(env, b)?;
                    self.binop(op, x, y)
                }
            },
            E::Not(a) => match self.eval(env, a)? {
                V::Bool(b) => Ok(V::Bool(!b)),
                o => panic!("umodel: not on {o:?}"),
            },
            E::Neg(a) => match self.eval(env, a)? {
                V::Int(v) => Ok(V::Int(arith("-", 0, v)?)),
                o => panic!("umodel: neg on {o:?}"),
            },
            E::If(arms, els) => {
                for (c, b) in arms {
                    match self.eval(env, c)? {
                        V::Bool(true) => {
                            let v = self.block(env, b)?;
                            // an `if` without `else` is a statement of type void
                            return Ok(if els.is_none() { V::Nil } else { v });
                        }
                        V::Bool(false) => {}
                        o => panic!("umodel: if on {o:?}"),
                    }
                }
                match els {
                    Some(b) => self.block(env, b),
                    None => Ok(V::Nil),
                }
            }
            E::Block(b) => self.block(env, b),
            E::Call(f, args) => {
                if let E::Var(n) = &**f {
                    if env.get(n).is_none() && !self.fns.contains_key(n.as_str()) {
                        let vals = self.eval_list(env, args)?;
                        return self.builtin(n, vals);
                    }
                }
                let fv = self.eval(env, f)?;
                let vals = self.eval_list(env, args)?;
                self.call_value(fv, vals)
            }
            E::Lam(ps, body) => Ok(V::Clo(Rc::new(Closure { params: ps.iter().map(|p| p.0.clone()).collect(), body: (**body).clone(), env: env.snapshot() }))),
            E::Tup(es) => Ok(V::Tup(self.eval_list(env, es)?)),
            E::Arr(es) => Ok(V::Arr(Rc::new(RefCell::new(self.eval_list(env, es)?)))),
            E::Variant(_, n, args) => Ok(V::Enum(n.clone(), self.eval_list(env, args)?)),
            E::Field(a, f) => match self.eval(env, a)? {
                V::Struct(n, fs) => {
                    let i = self.field_index(&n, f);
                    let v = fs.borrow()[i].clone();
                    Ok(v)
                }
                o => panic!("umodel: field {f} of {o:?}"),
            },
            E::Index(a, i) => {
                let av = self.eval(env, a)?;
                let iv = self.eval(env, i)?;
                self.index(&av, &iv)
            }
            E::Method(a, m, args) => {
                let recv = self.eval(env, a)?;
                let vals = self.eval_list(env, args)?;
                self.method(recv, m, vals)
            }
            E::Match(sc, arms) => {
                let v = self.eval(env, sc)?;
                for (p, body) in arms {
                    let mut b = vec![];
                    if self.matches(p, &v, &mut b)? {
                        env.scopes.push(HashMap::new());
                        for (n, v) in b {
                            env.bind(&n, v);
                        }
                        let r = self.eval(env, body);
                        env.scopes.pop();
                        return r;
                    }
                }
                panic!("umodel: non-exhaustive match generated: {v:?}");
            }
            E::Try(a) => match self.eval(env, a)? {
                V::Enum(n, mut p) => match n.as_str() {
                    "some" | "ok" => Ok(p.pop().unwrap()),
                    "none" => Err(Flow::Return(V::Enum("none".into(), vec![]))),
                    "err" => Err(Flow::Return(V::Enum("err".into(), p))),
                    _ => panic!("umodel: ? on variant {n}"),
                },
                o => panic!("umodel: ? on {o:?}"),
            },
            E::Unwrap(a) => match self.eval(env, a)? {
                V::Enum(n, mut p) => match n.as_str() {
                    "some" | "ok" => Ok(p.pop().unwrap()),
                    "none" | "err" => Err(Flow::Err("panic")),
                    _ => panic!("umodel: ! on variant {n}"),
                },
                o => panic!("umodel: ! on {o:?}"),
            },
            E::Task(_) => Err(Flow::Unspec("tasks are not interpreted by the reference model".into())),
        }
    }

    fn builtin(&mut self, n: &str, mut a: Vec<V>) -> R<V> {
        match (n, a.len()) {
            ("vh_emit_int", 1) => match a.pop().unwrap() {
                V::Int(v) => {
                    self.emits.push(Emit::Int(v));
                    Ok(V::Nil)
                }
                o => panic!("umodel: vh_emit_int({o:?})"),
            },
            ("vh_emit_bool", 1) => match a.pop().unwrap() {
                V::Bool(v) => {
                    self.emits.push(Emit::Bool(v));
                    Ok(V::Nil)
                }
                o => panic!("umodel: vh_emit_bool({o:?})"),
            },
            ("vh_emit_str", 1) => match a.pop().unwrap() {
                V::Str(v) => {
                    self.emits.push(Emit::Str(v));
                    Ok(V::Nil)
                }
                o => panic!("umodel: vh_emit_str({o:?})"),
            },
            ("vh_emit_arr", 1) => match a.pop().unwrap() {
                V::Arr(v) => {
                    let ints: Vec<i64> = v
                        .borrow()
                        .iter()
                        .map(|x| match x {
                            V::Int(i) => *i,
                            o => panic!("umodel: vh_emit_arr element {o:?}"),
                        })
                        .collect();
                    self.emits.push(Emit::Arr(ints));
                    Ok(V::Nil)
                }
                o => panic!("umodel: vh_emit_arr({o:?})"),
            },
            ("vh_next_int", 0) => Ok(V::Int(self.inputs.pop_front().expect("umodel: host input exhausted"))),
            ("print", 1) => {
                let s = self.render(&a[0])?;
                self.out.push_str(&s);
                Ok(V::Nil)
            }
            ("println", 1) => {
                let s = self.render(&a[0])?;
                self.out.push_str(&s);
                self.out.push('\n');
                Ok(V::Nil)
            }
            ("panic", 1) => Err(Flow::Err("panic")),
            ("range", 2) => Ok(V::Struct("range".into(), Rc::new(RefCell::new(a)))),
            _ => {
                if self.structs.contains_key(n) {
                    assert_eq!(self.structs[n].len(), a.len(), "umodel: constructor arity of {n}");
                    return Ok(V::Struct(n.to_string(), Rc::new(RefCell::new(a))));
                }
                panic!("umodel: unknown function {n}/{}", a.len())
            }
        }
    }

    fn method(&mut self, recv: V, m: &str, mut a: Vec<V>) -> R<V> {
        match (&recv, m, a.len()) {
            (V::Arr(x), "len", 0) => Ok(V::Int(x.borrow().len() as i64)),
            (V::Arr(x), "is_empty", 0) => Ok(V::Bool(x.borrow().is_empty())),
            (V::Arr(x), "push", 1) => {
                x.borrow_mut().push(a.pop().unwrap());
                Ok(V::Nil)
            }
            (V::Arr(x), "pop", 0) => match x.borrow_mut().pop() {
                Some(v) => Ok(v),
                // removing from an empty array: the only documented error kind that fits is "array index out of bounds"
                None => Err(Flow::Err("array-oob")),
            },
            (V::Enum(n, _), "is_some", 0) => Ok(V::Bool(n == "some")),
            (V::Enum(n, _), "is_none", 0) => Ok(V::Bool(n == "none")),
            (V::Enum(n, _), "is_ok", 0) => Ok(V::Bool(n == "ok")),
            (V::Enum(n, _), "is_err", 0) => Ok(V::Bool(n == "err")),
            _ => Err(Flow::Unspec(format!("method {m} is not part of the reference model"))),
        }
    }

    fn assign(&mut self, env: &mut Env, l: &E, op: &str, r: &E) -> R<()> {
        // `x op= e` is documented as `x = x op e`: the old value is read before `e` is evaluated
        match l {
            E::Var(n) => {
                let nv = if op == "=" {
                    self.eval(env, r)?
                } else {
                    let old = env.get(n).unwrap_or_else(|| panic!("umodel: assignment to unbound {n}"));
                    let rv = self.eval(env, r)?;
                    self.binop(&op[..op.len() - 1], old, rv)?
                };
                if !env.set(n, nv) {
                    panic!("umodel: assignment to unbound {n}");
                }
                Ok(())
            }
            E::Index(a, i) => {
                let av = self.eval(env, a)?;
                let iv = self.eval(env, i)?;
                let nv = if op == "=" {
                    self.eval(env, r)?
                } else {
                    let old = self.index(&av, &iv)?;
                    let rv = self.eval(env, r)?;
                    self.binop(&op[..op.len() - 1], old, rv)?
                };
                match (&av, &iv) {
                    (V::Arr(x), V::Int(i)) => {
                        let mut x = x.borrow_mut();
                        if *i < 0 || *i as usize >= x.len() {
                            return Err(Flow::Err("array-oob"));
                        }
                        x[*i as usize] = nv;
                        Ok(())
                    }
                    _ => panic!("umodel: ill-typed index assignment"),
                }
            }
            E::Field(a, f) => {
                let sv = self.eval(env, a)?;
                let V::Struct(n, fs) = &sv else { panic!("umodel: field assignment on {sv:?}") };
                let idx = self.field_index(n, f);
                let nv = if op == "=" {
                    self.eval(env, r)?
                } else {
                    let old = fs.borrow()[idx].clone();
                    let rv = self.eval(env, r)?;
                    self.binop(&op[..op.len() - 1], old, rv)?
                };
                fs.borrow_mut()[idx] = nv;
                Ok(())
            }
            o => panic!("umodel: bad lvalue {o:?}"),
        }
    }

    fn exec(&mut self, env: &mut Env, s: &S) -> R<()> {
        self.tick()?;
        match s {
            S::Let(_, p, _, e) => {
                let v = self.eval(env, e)?;
                self.bind_pat(env, p, &v)
            }
            S::Assign(l, op, r) => self.assign(env, l, op, r),
            S::Expr(e) => self.eval(env, e).map(|_| ()),
            S::While(c, b) => {
                loop {
                    match self.eval(env, c)? {
                        V::Bool(true) => {}
                        V::Bool(false) => break,
                        o => panic!("umodel: while on {o:?}"),
                    }
                    match self.block(env, b) {
                        Ok(_) | Err(Flow::Continue) => {}
                        Err(Flow::Break) => break,
                        Err(e) => return Err(e),
                    }
                }
                Ok(())
            }
            S::For(p, e, b) => {
                let it = self.eval(env, e)?;
                // Iterable contracts of the prelude: int n counts 0..n, range(b, e) counts b..e, an array
                // yields its elements by position (its length is re-read at every step)
                let mut i: i64 = 0;
                let (mut cur, end) = match &it {
                    V::Int(n) => (0i64, *n),
                    V::Struct(n, fs) if n == "range" => match (&fs.borrow()[0], &fs.borrow()[1]) {
                        (V::Int(a), V::Int(b)) => (*a, *b),
                        _ => panic!("umodel: range fields"),
                    },
                    V::Arr(_) => (0, 0),
                    o => panic!("umodel: for over {o:?}"),
                };
                loop {
                    let item = match &it {
                        V::Arr(a) => {
                            let len = a.borrow().len() as i64;
                            if i == len {
                                break;
                            }
                            if i > len {
                                return Err(Flow::Unspec("array shrunk while it is iterated".into()));
                            }
                            let v = a.borrow()[i as usize].clone();
                            i += 1;
                            v
                        }
                        _ => {
                            if cur >= end {
                                break;
                            }
                            let v = V::Int(cur);
                            cur += 1;
                            v
                        }
                    };
                    env.scopes.push(HashMap::new());
                    let r = match self.bind_pat(env, p, &item) {
                        Ok(()) => self.block(env, b),
                        Err(e) => Err(e),
                    };
                    env.scopes.pop();
                    match r {
                        Ok(_) | Err(Flow::Continue) => {}
                        Err(Flow::Break) => break,
                        Err(e) => return Err(e),
                    }
                }
                Ok(())
            }
            S::Break => Err(Flow::Break),
            S::Continue => Err(Flow::Continue),
            S::Return(None) => Err(Flow::Return(V::Nil)),
            S::Return(Some(e)) => {
                let v = self.eval(env, e)?;
                Err(Flow::Return(v))
            }
        }
    }
}

/// Run the reference model on a program of U-prog.
pub fn run(p: &Prog) -> Outcome {
    run_with_fuel(p, 200_000)
}

pub fn run_with_fuel(p: &Prog, fuel: u64) -> Outcome {
    let mut it = Interp { fns: HashMap::new(), structs: HashMap::new(), emits: vec![], out: String::new(), inputs: p.inputs.iter().copied().collect(), steps: 0, fuel, depth: 0 };
    for d in &p.decls {
        match d {
            D::Fn { name, .. } => {
                it.fns.insert(name.as_str(), d);
            }
            D::Struct(n, fs) => {
                it.structs.insert(n.as_str(), fs.iter().map(|f| f.0.clone()).collect());
            }
            D::Enum(..) => {}
        }
    }
    let mut env = Env::new();
    let r = it.block_inner(&mut env, &p.body);
    let end = match r {
        Ok(_) | Err(Flow::Return(_)) => ModelEnd::Done,
        Err(Flow::Err(k)) => ModelEnd::Err(k),
        Err(Flow::Unspec(s)) => ModelEnd::Unspecified(s),
        Err(Flow::Break) | Err(Flow::Continue) => panic!("umodel: break/continue escaped the program body: {}", p.name()),
    };
    Outcome { emits: it.emits, out: it.out, end, steps: it.steps }
}
